// Package c03: files that pass validation satisfy the NACHA control arithmetic.
package c03

import (
	"fmt"
	"runtime"
	"sort"
	"strconv"
	"strings"
	"sync"
	"sync/atomic"

	"github.com/moov-io/ach"
	"verif/harness/gen"
	. "verif/harness/oracle"
)

const rule = "four phases. (1) perturb: a generator file (every SEC incl. IAT and ADV files, all categories, offsets, preset traces) gets 0..3 in-memory " +
	"perturbations out of 12 groups (amount, routing prefix, check digit, trace number, ODFI, addenda list, transaction code, service class, batch control field, " +
	"file control field, value moved between two batch controls, entries/batches dropped-duplicated-swapped), each optionally compensated by re-tabulating the " +
	"batch and/or file control with this package's own arithmetic; Validate() is called and, when it returns nil, every clause of the property is recomputed " +
	"independently. (2) big: batches of 120..1100 entries whose routing sum exceeds 10^10 and whose totals approach/exceed 12 digits. (3) check-digit sweep: " +
	"structured + random 8-digit prefixes x 10 digits against an independent 3-7-1 implementation, through EntryDetail/IATEntryDetail/ADVEntryDetail.Validate and " +
	"through File.Validate. (4) transaction-code sweep: 100 codes x 4 service classes x {amount placed in credit, debit, neither, both, own classification} through " +
	"File.Validate for every SEC. distinct = distinct (SEC set, perturbation list, outcome); non-trivial = Validate() returned nil (the property's hypothesis holds)"

func init() {
	Register("C03", &Oracle{Rule: rule, Run: run})
}

func run(t *T) {
	perturbPhase(t)
	bigPhase(t)
	checkDigitSweep(t)
	txCodeSweep(t)
}

// reporter is the part of *T the phases use; sink buffers it so that cases can
// be evaluated on several goroutines and still be reported in index order.
type reporter interface {
	Fail(sig, what string, input any, observed, required string)
	Case(key, class string, nontrivial bool)
}

type failRec struct {
	sig, what     string
	input         any
	obs, required string
}

type caseRec struct {
	key, class string
	nontrivial bool
	fails      []failRec
}

type sink struct {
	recs    []caseRec
	pending []failRec
	perSig  map[string]int
}

func (s *sink) Fail(sig, what string, input any, observed, required string) {
	s.pending = append(s.pending, failRec{sig, what, input, observed, required})
}

func (s *sink) Case(key, class string, nontrivial bool) {
	s.recs = append(s.recs, caseRec{key, class, nontrivial, s.pending})
	s.pending = nil
}

// wantInput says whether the (expensive) replay input of another failure with this signature is still needed.
func (s *sink) wantInput(sig string) bool {
	if s.perSig == nil {
		s.perSig = map[string]int{}
	}
	s.perSig[sig]++
	return s.perSig[sig] <= 3
}

// parallel evaluates fn(0..n-1) on all CPUs and reports the buffered results in index order.
func parallel(t *T, n int, fn func(i int, s *sink)) {
	sinks := make([]sink, n)
	var wg sync.WaitGroup
	next := int64(-1)
	for w := 0; w < runtime.NumCPU(); w++ {
		wg.Add(1)
		go func() {
			defer wg.Done()
			for {
				i := int(atomic.AddInt64(&next, 1))
				if i >= n {
					return
				}
				fn(i, &sinks[i])
			}
		}()
	}
	wg.Wait()
	for i := range sinks {
		for _, c := range sinks[i].recs {
			for _, f := range c.fails {
				t.Fail(f.sig, f.what, f.input, f.obs, f.required)
			}
			t.Case(c.key, c.class, c.nontrivial)
		}
		for _, f := range sinks[i].pending {
			t.Fail(f.sig, f.what, f.input, f.obs, f.required)
		}
	}
}

func secsOf(f *ach.File) string {
	m := map[string]bool{}
	for _, b := range f.Batches {
		m[b.GetHeader().StandardEntryClassCode] = true
	}
	if len(f.IATBatches) > 0 {
		m["IAT"] = true
	}
	var ks []string
	for k := range m {
		ks = append(ks, k)
	}
	sort.Strings(ks)
	return strings.Join(ks, "+")
}

func input(f *ach.File, perts []string) (out map[string]any) {
	defer func() {
		if r := recover(); r != nil {
			out = map[string]any{"perturbations": perts, "describe": fmt.Sprintf("file could not be rendered: %v", r)}
		}
	}()
	out = FileInput(f)
	out["perturbations"] = perts
	return out
}

// validateAndCheck calls Validate and, on nil, reports every violated clause.  It returns whether the file was accepted.
func validateAndCheck(t reporter, f *ach.File, perts []string) (accepted bool, panicked bool) {
	err := safely(f.Validate)
	if err != nil {
		return false, strings.HasPrefix(err.Error(), "panic:")
	}
	for _, fd := range checkFile(f) {
		var in any = map[string]any{"perturbations": perts}
		if s, ok := t.(*sink); !ok || s.wantInput(fd.sig) {
			in = input(f, perts)
		}
		t.Fail(fd.sig, fd.what, in, fd.observed, fd.required)
	}
	return true, false
}

func outcome(acc, pan bool) string {
	switch {
	case pan:
		return "validate-panicked"
	case acc:
		return "accepted"
	}
	return "rejected"
}

// ---- phase 1 ----------------------------------------------------------------

func perturbPhase(t *T) {
	n := t.Budget(80000)
	all := gen.AllSECs()
	cats := gen.AllCategories()
	const chunk = 40000 // bounds the memory held by buffered results
	for base := 0; base < n; base += chunk {
		perturbChunk(t, base, min(chunk, n-base), all, cats)
	}
}

func perturbChunk(t *T, base, n int, all, cats []string) {
	rs := make([]*gen.Rand, n)
	for i := range rs {
		rs[i] = t.R.Fork(uint64(base + i))
	}
	parallel(t, n, func(i int, t *sink) {
		r := rs[i]
		i += base
		o := gen.Opts{MaxBatches: 3, MaxEntries: 4, Offset: i%5 == 0, PresetTraces: i%3 == 0, FullWidth: i%7 == 0}
		switch i % 4 {
		case 0: // one SEC at a time so that every SEC is perturbed often
			o.SECs = []string{all[(i/4)%len(all)]}
		case 1:
			o.SECs = []string{all[(i/4)%len(all)], ach.IAT}
		}
		if i%2 == 0 {
			o.Categories = cats
		}
		f, err := gen.File(r, o)
		if err != nil {
			t.Fail("C03/generator", "generator failed", fmt.Sprint(o), err.Error(), "a valid file")
			return
		}
		secs := secsOf(f)
		c := &ctx{r: r, f: f}
		var perts, grps []string
		for k, np := 0, []int{0, 1, 1, 1, 2, 2, 3}[r.Intn(7)]; k < np; k++ {
			g, d := c.perturb()
			if g == "" {
				continue
			}
			grps = append(grps, g)
			perts = append(perts, g+":"+d)
		}
		acc, pan := validateAndCheck(t, f, perts)
		class := "unperturbed"
		if len(grps) > 0 {
			sort.Strings(grps)
			class = "perturb/" + strings.Join(grps, "+")
			if len(grps) > 1 {
				class = fmt.Sprintf("perturb/%d-fold", len(grps))
			}
		}
		t.Case(secs+"|"+strings.Join(perts, ";")+"|"+outcome(acc, pan), class+":"+outcome(acc, pan), acc)
	})
}

// ---- phase 2 ----------------------------------------------------------------

func bigPhase(t *T) {
	n := t.Budget(69)
	all := gen.AllSECs()
	for i := 0; i < n; i++ {
		r := t.R.Fork(uint64(1_000_000 + i))
		sec := all[i%len(all)]
		nb := 1 + i%3
		f, err := gen.File(r, gen.Opts{SECs: []string{sec}, MinBatches: nb, MaxBatches: nb, MaxEntries: 1})
		if err != nil {
			t.Fail("C03/generator", "generator failed", sec, err.Error(), "a valid file")
			continue
		}
		size := []int{120, 350, 1100}[r.Intn(3)]
		amt := []string{"small", "as-template", "max"}[r.Intn(3)]
		c := &ctx{r: r, f: f}
		c.refresh()
		hashOverflow := false
		createErr := ""
		for bi := range c.vs {
			src := c.vs[bi]
			for k := 0; k < size; k++ {
				p := strconv.Itoa(r.Range(5, 9)) + randDigits(r, 7)
				cd := strconv.Itoa(check371(p))
				a := *src.entries[0].amount
				switch {
				case a == 0:
				case amt == "small":
					a = r.Range(1, 1000)
				case amt == "max":
					a = 9_999_999_999
				}
				switch src.kind {
				case "std":
					e := cloneStd(src.entries[0].std)
					e.RDFIIdentification, e.CheckDigit, e.Amount, e.TraceNumber = p, cd, a, ""
					f.Batches[src.idx].AddEntry(e)
				case "ADV":
					e := cloneADV(src.entries[0].adv)
					e.RDFIIdentification, e.CheckDigit, e.Amount = p, cd, a
					f.Batches[src.idx].AddADVEntry(e)
				case "IAT":
					e := cloneIAT(src.entries[0].iat)
					e.RDFIIdentification, e.CheckDigit, e.Amount, e.TraceNumber = p, cd, a, ""
					f.IATBatches[src.idx].AddEntry(e)
				}
			}
		}
		c.refresh()
		for bi := range c.vs {
			v := c.vs[bi]
			sum := 0
			for _, e := range v.entries {
				x, _ := rdfi8(*e.rdfi)
				sum += x
			}
			if sum >= hashMod {
				hashOverflow = true
			}
			var cerr error
			if v.kind == "IAT" {
				cerr = safely(f.IATBatches[v.idx].Create)
			} else {
				cerr = safely(f.Batches[v.idx].Create)
			}
			if cerr != nil {
				createErr = cerr.Error()
			}
		}
		key := fmt.Sprintf("%s x%d batches x%d entries amounts=%s", sec, nb, size, amt)
		// (a) as tabulated by the library
		if createErr == "" {
			if err := safely(f.Create); err != nil {
				createErr = err.Error()
			}
		}
		if createErr == "" {
			acc, pan := validateAndCheck(t, f, []string{"big:" + key + " (library Create)"})
			t.Case(key+"|library", "big/library-tabulated:"+outcome(acc, pan), acc && hashOverflow)
		} else {
			t.Case(key+"|create-error", "big/create-error", false)
		}
		// (b) tabulated by this package
		c.refresh()
		for _, v := range c.vs {
			fixBatch(v)
		}
		fixFile(f)
		acc, pan := validateAndCheck(t, f, []string{"big:" + key + " (own tabulation)"})
		t.Case(key+"|own", "big/own-tabulated:"+outcome(acc, pan), acc && hashOverflow)
		// (c) the hash left unreduced in one batch control and in the file control
		v := c.vs[0]
		sum := 0
		for _, e := range v.entries {
			x, _ := rdfi8(*e.rdfi)
			sum += x
		}
		if sum >= hashMod {
			*v.hash = sum
			if r.Bool() {
				fixFile(f)
			}
			acc, pan := validateAndCheck(t, f, []string{"big:" + key + " (batch hash unreduced)"})
			t.Case(key+"|unreduced-batch-hash", "big/unreduced-batch-hash:"+outcome(acc, pan), acc)
			fixBatch(v)
			fixFile(f)
		}
		fc := control(f)
		tot := 0
		for _, v := range c.vs {
			tot += *v.hash
		}
		if tot >= hashMod {
			*fc.hash = tot
			acc, pan := validateAndCheck(t, f, []string{"big:" + key + " (file hash unreduced)"})
			t.Case(key+"|unreduced-file-hash", "big/unreduced-file-hash:"+outcome(acc, pan), acc)
		}
	}
}

// ---- phase 3 ----------------------------------------------------------------

func checkDigitSweep(t *T) {
	n := 100_000
	switch t.Tier {
	case "search":
		n = 600_000
	case "thorough":
		n = 2_000_000
	}
	r := t.R.Fork(2_000_000)
	// templates
	fs, err := gen.File(r, gen.Opts{SECs: []string{ach.PPD}, MinBatches: 1, MaxBatches: 1, MaxEntries: 1})
	fi, err2 := gen.File(r, gen.Opts{SECs: []string{ach.IAT}, MinBatches: 1, MaxBatches: 1, MaxEntries: 1})
	fa, err3 := gen.File(r, gen.Opts{SECs: []string{ach.ADV}, MinBatches: 1, MaxBatches: 1, MaxEntries: 1})
	if err != nil || err2 != nil || err3 != nil {
		t.Fail("C03/generator", "generator failed", nil, fmt.Sprint(err, err2, err3), "valid files")
		return
	}
	std := fs.Batches[0].GetEntries()[0]
	iat := fi.IATBatches[0].Entries[0]
	adv := fa.Batches[0].GetADVEntries()[0]
	files := []*ach.File{fs, fi, fa}

	var structured []string
	for _, base := range []string{"00000000", "99999999", "12345678", "50505050", "09090909"} {
		for pos := 0; pos < 8; pos++ {
			for d := 0; d < 10; d++ {
				b := []byte(base)
				b[pos] = byte('0' + d)
				structured = append(structured, string(b))
			}
		}
	}
	for d := 0; d < 10; d++ {
		structured = append(structured, strings.Repeat(strconv.Itoa(d), 8))
	}
	// every prefix of the form ab000000 and 000000ab
	for ab := 0; ab < 100; ab++ {
		structured = append(structured, fmt.Sprintf("%02d000000", ab), fmt.Sprintf("000000%02d", ab), fmt.Sprintf("000%02d000", ab))
	}

	entryLevel := func(p string) {
		want := check371(p)
		for d := 0; d < 10; d++ {
			ds := strconv.Itoa(d)
			std.RDFIIdentification, std.CheckDigit = p, ds
			iat.RDFIIdentification, iat.CheckDigit = p, ds
			adv.RDFIIdentification, adv.CheckDigit = p, ds
			for k, v := range []func() error{std.Validate, iat.Validate, adv.Validate} {
				if safely(v) == nil && d != want {
					kind := []string{"EntryDetail", "IATEntryDetail", "ADVEntryDetail"}[k]
					t.Fail("C03/check-digit-sweep/"+kind, kind+".Validate accepts a check digit that does not follow the 3-7-1 rule",
						map[string]string{"RDFIIdentification": p, "CheckDigit": ds}, "Validate() == nil", fmt.Sprintf("check digit %d", want))
				}
			}
		}
	}
	fileLevel := func(p string) {
		for _, f := range files {
			for d := 0; d < 10; d++ {
				vs := views(f)
				e := vs[0].entries[0]
				*e.rdfi, *e.check = p, strconv.Itoa(d)
				fixBatch(vs[0])
				fixFile(f)
				validateAndCheck(t, f, []string{"check-digit sweep: prefix " + p + " digit " + strconv.Itoa(d)})
			}
		}
	}
	libMismatch := func(p string) {
		lib, want := ach.CalculateCheckDigit(p), check371(p)
		if lib != want {
			std.RDFIIdentification, std.CheckDigit = p, strconv.Itoa(lib)
			if safely(std.Validate) == nil {
				t.Fail("C03/check-digit-sweep/EntryDetail", "EntryDetail.Validate accepts a check digit that does not follow the 3-7-1 rule",
					map[string]string{"RDFIIdentification": p, "CheckDigit": strconv.Itoa(lib)}, "Validate() == nil", fmt.Sprintf("check digit %d", want))
			}
		}
	}
	for k, p := range structured {
		libMismatch(p)
		entryLevel(p)
		if k%8 == 0 {
			fileLevel(p)
		}
	}
	t.Case(fmt.Sprintf("structured prefixes (%d)", len(structured)), "sweep/check-digit/structured(block)", true)
	const block = 1000
	for done := 0; done < n; done += block {
		first := ""
		for k := 0; k < block; k++ {
			p := fmt.Sprintf("%08d", r.Intn(100_000_000))
			if k == 0 {
				first = p
			}
			libMismatch(p)
			if k%16 == 0 {
				entryLevel(p)
			}
			if k == 1 {
				fileLevel(p)
			}
		}
		t.Case("random block starting "+first, "sweep/check-digit/random(block of 1000 prefixes)", true)
	}
}

// ---- phase 4 ----------------------------------------------------------------

func txCodeSweep(t *T) {
	type base struct {
		sec string
		cat []string
	}
	var bases []base
	for _, s := range gen.AllSECs() {
		bases = append(bases, base{s, nil})
	}
	for _, s := range []string{ach.PPD, ach.CCD, ach.CTX, ach.WEB, ach.TEL, ach.IAT, ach.ADV, ach.MTE} {
		bases = append(bases, base{s, []string{ach.CategoryReturn}})
	}
	bases = append(bases, base{ach.PPD, []string{ach.CategoryDishonoredReturn}}, base{ach.COR, []string{gen.CategoryRefusedNOC}})
	sccs := []int{ach.MixedDebitsAndCredits, ach.CreditsOnly, ach.DebitsOnly, ach.AutomatedAccountingAdvices}
	placements := []string{"own", "credit", "debit", "neither", "both"}
	rs := make([]*gen.Rand, len(bases))
	for i := range rs {
		rs[i] = t.R.Fork(uint64(3_000_000 + i))
	}
	parallel(t, len(bases), func(bi int, t *sink) {
		b, r := bases[bi], rs[bi]
		f, err := gen.File(r, gen.Opts{SECs: []string{b.sec}, Categories: b.cat, MinBatches: 1, MaxBatches: 1, MaxEntries: 2, MaxAddenda: 1})
		if err != nil {
			t.Fail("C03/generator", "generator failed", b.sec, err.Error(), "a valid file")
			return
		}
		cat := "Forward"
		if len(b.cat) > 0 {
			cat = b.cat[0]
		}
		if b.sec == ach.COR && len(b.cat) == 0 {
			cat = "NOC"
		}
		v := views(f)[0]
		e := v.entries[0]
		amounts := []int{0, 1 + r.Intn(2000)}
		for code := 0; code < 100; code++ {
			if v.kind == "IAT" && code/10 == 8 || v.kind == "ADV" && code/10 >= 2 && code/10 <= 5 {
				continue // ADV codes in IAT batches / standard codes in ADV batches: outside the stated domain
			}
			for _, scc := range sccs {
				for _, amt := range amounts {
					for _, pl := range placements {
						if amt == 0 && pl != "own" {
							continue
						}
						*e.code, *e.amount = code, amt
						*v.hSCC, *v.cSCC = scc, scc
						*e.amount = 0
						fixBatch(v) // the other entries, classified independently
						*e.amount = amt
						switch pl {
						case "own":
							fixBatch(v)
						case "credit":
							*v.cred += amt
						case "debit":
							*v.deb += amt
						case "both":
							*v.cred += amt
							*v.deb += amt
						}
						fixFile(f)
						desc := fmt.Sprintf("%s/%s code=%d service-class=%d amount=%d placed=%s", b.sec, cat, code, scc, amt, pl)
						acc, pan := validateAndCheck(t, f, []string{"tx-code sweep: " + desc})
						za := "amount>0"
						if amt == 0 {
							za = "amount=0"
						}
						t.Case(desc, "sweep/tx-code/"+v.kind+"/"+za+":"+outcome(acc, pan), acc)
					}
				}
			}
		}
	})
}
