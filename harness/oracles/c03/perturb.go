package c03

import (
	"fmt"
	"strconv"

	"github.com/moov-io/ach"
	"verif/harness/gen"
)

// ctx is one file under perturbation.
type ctx struct {
	r  *gen.Rand
	f  *ach.File
	vs []batchV
}

func (c *ctx) refresh() { c.vs = views(c.f) }

var compNames = [...]string{"none", "batch", "batch+file", "file-only"}

// comp re-tabulates controls with this package's own arithmetic: 0 nothing,
// 1 the batch control, 2 batch and file control, 3 the file control only.
func (c *ctx) comp(bi, level int) string {
	c.refresh()
	if (level == 1 || level == 2) && bi < len(c.vs) {
		fixBatch(c.vs[bi])
	}
	if level >= 2 {
		fixFile(c.f)
	}
	return "comp=" + compNames[level]
}

func (c *ctx) batch() int { return c.r.Intn(len(c.vs)) }

func randDigits(r *gen.Rand, n int) string {
	b := make([]byte, n)
	for i := range b {
		b[i] = byte('0' + r.Intn(10))
	}
	return string(b)
}

func seqOf(trace string) int {
	t := padLeft(trace, 15)
	n, _ := strconv.Atoi(t[8:])
	return n
}

// setSeq gives the entry a trace number with sequence seq (same prefix) and
// carries the sequence into the addenda that must repeat it.
func setSeq(e entryV, prefix string, seq int, fixAddenda bool) {
	*e.trace = prefix + fmt.Sprintf("%07d", seq%10_000_000)
	if !fixAddenda {
		return
	}
	if e.std != nil {
		for _, a := range e.std.Addenda05 {
			a.EntryDetailSequenceNumber = seq
		}
	}
	if x := e.iat; x != nil {
		if x.Addenda10 != nil {
			x.Addenda10.EntryDetailSequenceNumber = seq
		}
		if x.Addenda11 != nil {
			x.Addenda11.EntryDetailSequenceNumber = seq
		}
		if x.Addenda12 != nil {
			x.Addenda12.EntryDetailSequenceNumber = seq
		}
		if x.Addenda13 != nil {
			x.Addenda13.EntryDetailSequenceNumber = seq
		}
		if x.Addenda14 != nil {
			x.Addenda14.EntryDetailSequenceNumber = seq
		}
		if x.Addenda15 != nil {
			x.Addenda15.EntryDetailSequenceNumber = seq
		}
		if x.Addenda16 != nil {
			x.Addenda16.EntryDetailSequenceNumber = seq
		}
		for _, a := range x.Addenda17 {
			a.EntryDetailSequenceNumber = seq
		}
		for _, a := range x.Addenda18 {
			a.EntryDetailSequenceNumber = seq
		}
	}
}

func cloneStd(e *ach.EntryDetail) *ach.EntryDetail {
	c := *e
	c.Addenda05 = nil
	for _, a := range e.Addenda05 {
		x := *a
		c.Addenda05 = append(c.Addenda05, &x)
	}
	if e.Addenda02 != nil {
		x := *e.Addenda02
		c.Addenda02 = &x
	}
	if e.Addenda98 != nil {
		x := *e.Addenda98
		c.Addenda98 = &x
	}
	if e.Addenda98Refused != nil {
		x := *e.Addenda98Refused
		c.Addenda98Refused = &x
	}
	if e.Addenda99 != nil {
		x := *e.Addenda99
		c.Addenda99 = &x
	}
	if e.Addenda99Dishonored != nil {
		x := *e.Addenda99Dishonored
		c.Addenda99Dishonored = &x
	}
	if e.Addenda99Contested != nil {
		x := *e.Addenda99Contested
		c.Addenda99Contested = &x
	}
	return &c
}

func cloneIAT(e *ach.IATEntryDetail) *ach.IATEntryDetail {
	c := *e
	if e.Addenda10 != nil {
		x := *e.Addenda10
		c.Addenda10 = &x
	}
	if e.Addenda11 != nil {
		x := *e.Addenda11
		c.Addenda11 = &x
	}
	if e.Addenda12 != nil {
		x := *e.Addenda12
		c.Addenda12 = &x
	}
	if e.Addenda13 != nil {
		x := *e.Addenda13
		c.Addenda13 = &x
	}
	if e.Addenda14 != nil {
		x := *e.Addenda14
		c.Addenda14 = &x
	}
	if e.Addenda15 != nil {
		x := *e.Addenda15
		c.Addenda15 = &x
	}
	if e.Addenda16 != nil {
		x := *e.Addenda16
		c.Addenda16 = &x
	}
	c.Addenda17, c.Addenda18 = nil, nil
	for _, a := range e.Addenda17 {
		x := *a
		c.Addenda17 = append(c.Addenda17, &x)
	}
	for _, a := range e.Addenda18 {
		x := *a
		c.Addenda18 = append(c.Addenda18, &x)
	}
	if e.Addenda99 != nil {
		x := *e.Addenda99
		c.Addenda99 = &x
	}
	if e.Addenda98 != nil {
		x := *e.Addenda98
		c.Addenda98 = &x
	}
	return &c
}

func cloneADV(e *ach.ADVEntryDetail) *ach.ADVEntryDetail {
	c := *e
	if e.Addenda99 != nil {
		x := *e.Addenda99
		c.Addenda99 = &x
	}
	return &c
}

// appendEntry adds a copy of entry ei to batch bi and returns the new entry's view.
func (c *ctx) appendEntry(bi, ei int) entryV {
	v := c.vs[bi]
	src := v.entries[ei]
	switch v.kind {
	case "std":
		c.f.Batches[v.idx].AddEntry(cloneStd(src.std))
	case "ADV":
		n := cloneADV(src.adv)
		n.SequenceNumber = len(v.entries) + 1
		c.f.Batches[v.idx].AddADVEntry(n)
	case "IAT":
		c.f.IATBatches[v.idx].AddEntry(cloneIAT(src.iat))
	}
	c.refresh()
	es := c.vs[bi].entries
	return es[len(es)-1]
}

func (c *ctx) dropEntry(bi, ei int) {
	v := c.vs[bi]
	switch v.kind {
	case "std":
		t := v.entries[ei].std
		c.f.Batches[v.idx].DeleteEntries(func(e *ach.EntryDetail) bool { return e == t })
	case "ADV":
		t := v.entries[ei].adv
		c.f.Batches[v.idx].DeleteADVEntries(func(e *ach.ADVEntryDetail) bool { return e == t })
	case "IAT":
		t := v.entries[ei].iat
		c.f.IATBatches[v.idx].DeleteEntries(func(e *ach.IATEntryDetail) bool { return e == t })
	}
	c.refresh()
}

func (c *ctx) swapEntries(bi, i, j int) {
	v := c.vs[bi]
	switch v.kind {
	case "std":
		es := c.f.Batches[v.idx].GetEntries()
		es[i], es[j] = es[j], es[i]
	case "ADV":
		es := c.f.Batches[v.idx].GetADVEntries()
		es[i], es[j] = es[j], es[i]
	case "IAT":
		es := c.f.IATBatches[v.idx].Entries
		es[i], es[j] = es[j], es[i]
	}
	c.refresh()
}

var groups = []string{"amount", "rdfi", "check-digit", "trace", "addenda", "tx-code", "service-class", "batch-control", "file-control", "cross-batch", "structure", "odfi"}

// perturb applies one random perturbation and returns (group, description).
// An empty group means the drawn perturbation did not apply to this file.
func (c *ctx) perturb() (string, string) {
	r := c.r
	c.refresh()
	g := gen.Pick(r, groups)
	bi := c.batch()
	v := c.vs[bi]
	if len(v.entries) == 0 {
		return "", ""
	}
	ei := r.Intn(len(v.entries))
	e := v.entries[ei]
	lvl := r.Intn(4)
	switch g {
	case "amount":
		old := *e.amount
		name := ""
		switch r.Intn(9) {
		case 0:
			*e.amount, name = old+r.Range(1, 100000), "+d"
		case 1:
			if old == 0 {
				return "", ""
			}
			*e.amount, name = old-r.Range(1, old), "-d"
		case 2:
			*e.amount, name = 0, "zero"
		case 3:
			*e.amount, name = 1, "one"
		case 4:
			*e.amount, name = 9_999_999_999, "max10"
		case 5:
			*e.amount, name = 10_000_000_000, "over10"
		case 6:
			*e.amount, name = -1, "minus1"
		case 7:
			*e.amount, name = -old-5, "negative"
		case 8:
			*e.amount, name = 2_000_000_000_000, "13digits"
		}
		return g, v.kind + "/" + name + "/" + c.comp(bi, lvl)
	case "rdfi":
		name := ""
		switch r.Intn(7) {
		case 0:
			p := randDigits(r, 8)
			*e.rdfi, *e.check, name = p, strconv.Itoa(check371(p)), "new-valid"
		case 1:
			*e.rdfi, name = randDigits(r, 8), "new-keep-check-digit"
		case 2:
			p := "9999" + randDigits(r, 4)
			*e.rdfi, *e.check, name = p, strconv.Itoa(check371(p)), "high"
		case 3:
			// a prefix shorter than 8 columns: the rendered field is zero filled
			p := "0" + randDigits(r, 7)
			*e.check = strconv.Itoa(check371(p))
			for len(p) > 1 && p[0] == '0' {
				p = p[1:]
			}
			*e.rdfi, name = p, "short"
		case 4:
			if len(v.entries) < 2 {
				return "", ""
			}
			o := v.entries[(ei+1)%len(v.entries)]
			*e.rdfi, *o.rdfi = *o.rdfi, *e.rdfi
			*e.check, *o.check = *o.check, *e.check
			name = "swap-in-batch"
		case 5:
			if len(c.vs) < 2 {
				return "", ""
			}
			ov := c.vs[(bi+1)%len(c.vs)]
			if len(ov.entries) == 0 {
				return "", ""
			}
			o := ov.entries[r.Intn(len(ov.entries))]
			*e.rdfi, *o.rdfi = *o.rdfi, *e.rdfi
			*e.check, *o.check = *o.check, *e.check
			name = "swap-across-batches"
		case 6:
			// +10 on the prefix together with the control hash, by hand
			n, ok := rdfi8(*e.rdfi)
			if !ok || n+10 > 99_999_999 {
				return "", ""
			}
			p := fmt.Sprintf("%08d", n+10)
			*e.rdfi, *e.check = p, strconv.Itoa(check371(p))
			*v.hash += 10
			if r.Bool() {
				*control(c.f).hash += 10
				return g, v.kind + "/plus10-with-batch-and-file-hash"
			}
			return g, v.kind + "/plus10-with-batch-hash"
		}
		return g, v.kind + "/" + name + "/" + c.comp(bi, lvl)
	case "check-digit":
		if r.Chance(1, 5) {
			*e.check = gen.Pick(r, []string{"X", " ", "", "-", "o"})
			return g, v.kind + "/not-a-digit"
		}
		d := 0
		if len(*e.check) == 1 {
			d = int((*e.check)[0] - '0')
		}
		*e.check = strconv.Itoa((d + r.Range(1, 9)) % 10)
		return g, v.kind + "/other-digit"
	case "trace":
		if e.trace == nil {
			return "", ""
		}
		tr := padLeft(*e.trace, 15)
		fix := r.Bool()
		fx := map[bool]string{true: "/addenda-updated", false: ""}[fix]
		switch r.Intn(7) {
		case 0:
			if ei == 0 {
				return "", ""
			}
			p := padLeft(*v.entries[ei-1].trace, 15)
			setSeq(e, p[:8], seqOf(p), fix)
			return g, v.kind + "/equal-to-predecessor" + fx
		case 1:
			if ei == 0 || seqOf(*v.entries[ei-1].trace) == 0 {
				return "", ""
			}
			p := padLeft(*v.entries[ei-1].trace, 15)
			setSeq(e, p[:8], seqOf(p)-1, fix)
			return g, v.kind + "/below-predecessor" + fx
		case 2:
			if len(v.entries) < 2 {
				return "", ""
			}
			j := (ei + 1) % len(v.entries)
			o := v.entries[j]
			a, b := padLeft(*e.trace, 15), padLeft(*o.trace, 15)
			setSeq(e, b[:8], seqOf(b), fix)
			setSeq(o, a[:8], seqOf(a), fix)
			return g, v.kind + "/swapped-with-neighbour" + fx
		case 3:
			p := randDigits(r, 8)
			setSeq(e, p, seqOf(tr), fix)
			return g, v.kind + "/foreign-odfi-prefix" + fx
		case 4:
			// larger sequence on the last entry: still ascending
			last := v.entries[len(v.entries)-1]
			lt := padLeft(*last.trace, 15)
			if seqOf(lt) > 9_000_000 {
				return "", ""
			}
			setSeq(last, lt[:8], seqOf(lt)+r.Range(1, 900), fix)
			return g, v.kind + "/last-raised" + fx
		default:
			// Trace numbers of fewer than 15 columns ("ODFI + short sequence", "sequence only") are not perturbed:
			// the library compares the raw TraceNumber strings, on which the property's clause (ascending, begins
			// with the ODFI) is satisfied; what such values render to is a C01 matter, not a C03 one.
			return "", ""
		}
	case "odfi":
		p := randDigits(r, 8)
		switch r.Intn(4) {
		case 0:
			*v.hODFI, *v.cODFI = p, p
			for _, x := range v.entries {
				if x.trace != nil {
					setSeq(x, p, seqOf(*x.trace), true)
				}
			}
			return g, v.kind + "/header+control+traces"
		case 1:
			*v.hODFI = p
			return g, v.kind + "/header-only"
		case 2:
			*v.cODFI = p
			return g, v.kind + "/control-only"
		default:
			*v.hODFI, *v.cODFI = p, p
			return g, v.kind + "/header+control"
		}
	case "addenda":
		name := ""
		switch v.kind {
		case "std":
			x := e.std
			switch r.Intn(4) {
			case 0:
				a := ach.NewAddenda05()
				a.PaymentRelatedInformation = "added by the oracle"
				a.SequenceNumber = len(x.Addenda05) + 1
				a.EntryDetailSequenceNumber = seqOf(x.TraceNumber)
				x.AddAddenda05(a)
				x.AddendaRecordIndicator = 1
				name = "add-05"
			case 1:
				if len(x.Addenda05) == 0 {
					return "", ""
				}
				x.Addenda05 = x.Addenda05[:len(x.Addenda05)-1]
				if stdAddenda(x) == 0 && r.Bool() {
					x.AddendaRecordIndicator = 0
				}
				name = "drop-05"
			case 2:
				switch {
				case x.Addenda02 != nil:
					x.Addenda02, name = nil, "drop-02"
				case x.Addenda99 != nil:
					x.Addenda99, name = nil, "drop-99"
				case x.Addenda98 != nil:
					x.Addenda98, name = nil, "drop-98"
				default:
					return "", ""
				}
			default:
				a := ach.NewAddenda99()
				a.ReturnCode = "R01"
				a.OriginalTrace = padLeft(x.TraceNumber, 15)
				a.OriginalDFI = padLeft(*v.hODFI, 8)
				a.TraceNumber = padLeft(x.TraceNumber, 15)
				if x.Addenda99 != nil {
					return "", ""
				}
				x.Addenda99 = a
				x.AddendaRecordIndicator = 1
				if r.Bool() {
					x.Category = ach.CategoryReturn
				}
				name = "add-99"
			}
		case "IAT":
			x := e.iat
			switch r.Intn(6) {
			case 5:
				// a return addenda on an IAT entry; the category may lag behind (in-memory change, JSON without category)
				if x.Addenda99 != nil {
					return "", ""
				}
				a := ach.NewAddenda99()
				a.ReturnCode = "R01"
				a.OriginalTrace = padLeft(x.TraceNumber, 15)
				a.OriginalDFI = padLeft(*v.hODFI, 8)
				a.TraceNumber = padLeft(x.TraceNumber, 15)
				x.Addenda99 = a
				if r.Bool() {
					x.Category = ach.CategoryReturn
				}
				name = "add-99"
			case 0:
				a := ach.NewAddenda17()
				a.PaymentRelatedInformation = "added by the oracle"
				a.SequenceNumber = len(x.Addenda17) + 1
				a.EntryDetailSequenceNumber = seqOf(x.TraceNumber)
				x.AddAddenda17(a)
				name = "add-17"
			case 1:
				if len(x.Addenda17) == 0 {
					return "", ""
				}
				x.Addenda17, name = x.Addenda17[:len(x.Addenda17)-1], "drop-17"
			case 2:
				if len(x.Addenda18) == 0 {
					return "", ""
				}
				x.Addenda18, name = x.Addenda18[:len(x.Addenda18)-1], "drop-18"
			case 3:
				if len(x.Addenda18) == 0 {
					return "", ""
				}
				a := *x.Addenda18[len(x.Addenda18)-1]
				a.SequenceNumber++
				x.AddAddenda18(&a)
				name = "add-18"
			default:
				x.Addenda16, name = nil, "drop-16"
			}
			if r.Bool() {
				x.AddendaRecords = iatAddenda(x)
				name += "+records-field"
			}
		case "ADV":
			x := e.adv
			if x.Addenda99 != nil {
				x.Addenda99, name = nil, "drop-99"
				if r.Bool() {
					x.AddendaRecordIndicator, x.Category = 0, ach.CategoryForward
				}
			} else {
				a := ach.NewAddenda99()
				a.ReturnCode = "R01"
				a.OriginalTrace = padLeft(*v.hODFI, 8) + "0000001"
				a.OriginalDFI = padLeft(*v.hODFI, 8)
				a.TraceNumber = a.OriginalTrace
				x.Addenda99, x.AddendaRecordIndicator, name = a, 1, "add-99"
				if r.Bool() {
					x.Category = ach.CategoryReturn
				}
			}
		}
		return g, v.kind + "/" + name + "/" + c.comp(bi, lvl)
	case "tx-code":
		old := *e.code
		t, u := old/10, old%10
		name := ""
		switch r.Intn(5) {
		case 0: // other direction, same account type
			if v.kind == "ADV" {
				if u%2 == 1 {
					*e.code = old + 1
				} else {
					*e.code = old - 1
				}
			} else {
				switch {
				case old == 55:
					*e.code = 52
				case old == 52:
					*e.code = 55
				case u <= 4:
					*e.code = old + 5
				default:
					*e.code = old - 5
				}
			}
			name = "other-direction"
		case 1: // same direction, other account type
			if v.kind == "ADV" {
				*e.code = 80 + ((u+1)%8 + 1)
				if (*e.code)%2 != old%2 {
					*e.code = 80 + (u+2-1)%8 + 1
				}
			} else {
				nt := 2 + (t-2+r.Range(1, 3))%4
				*e.code = nt*10 + u
			}
			name = "other-account-type"
		case 2:
			*e.code, name = gen.Pick(r, []int{0, 1, 9, 20, 25, 30, 35, 45, 50, 57, 58, 59, 60, 61, 72, 80, 89, 90, 99, 100, 122, -22}), "invalid"
		case 3:
			if v.kind == "ADV" {
				return "", "" // standard codes inside ADV batches are outside the stated domain
			}
			if v.kind == "IAT" {
				return "", "" // ADV codes inside IAT batches are outside the stated domain
			}
			*e.code, name = r.Range(81, 88), "adv-code"
		default: // forward <-> return/prenote/zero-dollar variants of the same direction
			if v.kind == "ADV" {
				return "", ""
			}
			if u <= 4 {
				*e.code = t*10 + r.Range(1, 4)
			} else {
				*e.code = t*10 + r.Range(6, 9)
			}
			name = "same-direction-other-kind"
		}
		if foreignCode(v.kind, *e.code) {
			*e.code = old // outside the stated domain
			return "", ""
		}
		return g, fmt.Sprintf("%s/%s/%s", v.kind, name, c.comp(bi, lvl))
	case "service-class":
		nv := gen.Pick(r, []int{200, 220, 225, 280, 0, 210})
		switch r.Intn(3) {
		case 0:
			*v.hSCC = nv
			return g, fmt.Sprintf("%s/header=%d", v.kind, nv)
		case 1:
			*v.cSCC = nv
			return g, fmt.Sprintf("%s/control=%d", v.kind, nv)
		default:
			*v.hSCC, *v.cSCC = nv, nv
			return g, fmt.Sprintf("%s/both=%d", v.kind, nv)
		}
	case "batch-control":
		name := ""
		d := r.Range(1, 5000)
		switch r.Intn(12) {
		case 0:
			*v.cnt, name = *v.cnt+1, "count+1"
		case 1:
			*v.cnt, name = *v.cnt-1, "count-1"
		case 2:
			*v.hash, name = *v.hash+1, "hash+1"
		case 3:
			*v.hash, name = *v.hash+hashMod, "hash+10^10"
		case 4:
			*v.hash, name = *v.hash-hashMod, "hash-10^10"
		case 5:
			*v.deb, name = *v.deb+d, "debit+d"
		case 6:
			*v.cred, name = *v.cred+d, "credit+d"
		case 7:
			if *v.deb == *v.cred {
				return "", ""
			}
			*v.deb, *v.cred, name = *v.cred, *v.deb, "debit<->credit"
		case 8:
			*v.cNum, name = *v.cNum+1, "control-number+1"
		case 9:
			*v.hNum, name = *v.hNum+1, "header-number+1"
		case 10:
			*v.deb, *v.cred, name = *v.deb+d, *v.cred-d, "debit+d,credit-d"
		default:
			*v.deb, name = *v.deb+1_000_000_000_000, "debit+10^12"
		}
		if r.Bool() {
			fixFile(c.f)
			name += "/comp=file"
		}
		return g, v.kind + "/" + name
	case "file-control":
		fc := control(c.f)
		d := r.Range(1, 5000)
		name := ""
		switch r.Intn(10) {
		case 0:
			*fc.batches, name = *fc.batches+1, "batch-count+1"
		case 1:
			*fc.batches, name = *fc.batches-1, "batch-count-1"
		case 2:
			*fc.count, name = *fc.count+1, "count+1"
		case 3:
			*fc.count, name = *fc.count-1, "count-1"
		case 4:
			*fc.hash, name = *fc.hash+1, "hash+1"
		case 5:
			*fc.hash, name = *fc.hash+hashMod, "hash+10^10"
		case 6:
			*fc.deb, name = *fc.deb+d, "debit+d"
		case 7:
			*fc.cred, name = *fc.cred-d, "credit-d"
		case 8:
			if *fc.deb == *fc.cred {
				return "", ""
			}
			*fc.deb, *fc.cred, name = *fc.cred, *fc.deb, "debit<->credit"
		default:
			*fc.deb, *fc.cred, name = *fc.deb+d, *fc.cred-d, "debit+d,credit-d"
		}
		return g, name
	case "cross-batch":
		if len(c.vs) < 2 {
			return "", ""
		}
		o := c.vs[(bi+1+r.Intn(len(c.vs)-1))%len(c.vs)]
		d := r.Range(1, 5000)
		name := ""
		switch r.Intn(4) {
		case 0:
			*v.deb, *o.deb, name = *v.deb+d, *o.deb-d, "debit"
		case 1:
			*v.cred, *o.cred, name = *v.cred+d, *o.cred-d, "credit"
		case 2:
			*v.cnt, *o.cnt, name = *v.cnt+1, *o.cnt-1, "count"
		default:
			*v.hash, *o.hash, name = *v.hash+d, *o.hash-d, "hash"
		}
		return g, fmt.Sprintf("%s->%s/%s moved between two batch controls", v.kind, o.kind, name)
	case "structure":
		switch r.Intn(6) {
		case 0:
			if len(v.entries) < 2 {
				return "", ""
			}
			c.dropEntry(bi, ei)
			return g, v.kind + "/drop-entry/" + c.comp(bi, lvl)
		case 1:
			c.appendEntry(bi, ei)
			return g, v.kind + "/duplicate-entry-same-trace/" + c.comp(bi, lvl)
		case 2:
			n := c.appendEntry(bi, ei)
			if n.trace != nil {
				last := padLeft(*c.vs[bi].entries[len(c.vs[bi].entries)-2].trace, 15)
				setSeq(n, last[:8], seqOf(last)+1, true)
			}
			return g, v.kind + "/duplicate-entry-next-trace/" + c.comp(bi, lvl)
		case 3:
			if len(v.entries) < 2 {
				return "", ""
			}
			c.swapEntries(bi, ei, (ei+1)%len(v.entries))
			return g, v.kind + "/swap-entries/" + c.comp(bi, lvl)
		case 4:
			if len(c.f.Batches) < 2 {
				return "", ""
			}
			bs := c.f.Batches
			bs[0], bs[len(bs)-1] = bs[len(bs)-1], bs[0]
			c.refresh()
			return g, "swap-batches"
		default:
			if len(c.vs) < 2 {
				return "", ""
			}
			o := c.vs[(bi+1)%len(c.vs)]
			*v.hNum, *o.hNum = *o.hNum, *v.hNum
			*v.cNum, *o.cNum = *o.cNum, *v.cNum
			return g, "swap-batch-numbers"
		}
	}
	return "", ""
}
