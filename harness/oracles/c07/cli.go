package c07

import (
	"bytes"
	"encoding/json"
	"os"
	"os/exec"
	"path/filepath"
	"time"

	"github.com/moov-io/ach"
	"verif/harness/gen"
	. "verif/harness/oracle"
)

// cli runs the real `achcli -reformat` binary (built from /repo by the driver, path in VERIF_ACHCLI) on JSON files
// that carry their own validateOpts: the NACHA text it prints must be the library writer's text of the file.
func cli(t *T) {
	bin := os.Getenv("VERIF_ACHCLI")
	if bin == "" {
		return
	}
	if _, err := os.Stat(bin); err != nil {
		return
	}
	dir, err := os.MkdirTemp("", "c07cli")
	if err != nil {
		return
	}
	defer os.RemoveAll(dir)
	n := t.Budget(16)
	for i := 0; i < n; i++ {
		r := t.R.Fork(uint64(900000 + i))
		o := gen.Opts{SECs: []string{gen.Pick(r, []string{"PPD", "CCD", "WEB", "CTX", "TEL"})}, MaxBatches: 2, MaxEntries: 3, MaxAddenda: -1}
		f, err := gen.File(r, o)
		if err != nil {
			continue
		}
		// stored options that matter for decoding: custom trace numbers that Create must leave alone
		opts := &ach.ValidateOpts{CustomTraceNumbers: true}
		if i%3 == 1 {
			opts = &ach.ValidateOpts{BypassOriginValidation: true}
		}
		f.SetValidation(opts)
		for _, b := range f.Batches {
			b.SetValidation(opts)
			for k, e := range b.GetEntries() {
				e.SetValidation(opts)
				e.TraceNumber = "9" + e.TraceNumber[1:14] + string(rune('0'+k%10))
			}
			if err := b.Create(); err != nil {
				f = nil
				break
			}
		}
		if f == nil || f.Create() != nil || f.Validate() != nil {
			t.Case("", "cli/skipped-invalid-under-custom-traces", false)
			continue
		}
		var want bytes.Buffer
		if err := ach.NewWriter(&want).Write(f); err != nil {
			continue
		}
		js, err := json.Marshal(f)
		if err != nil {
			continue
		}
		// the library itself must round-trip it (otherwise this is not a CLI matter)
		if g, err := ach.FileFromJSON(js); err != nil {
			continue
		} else {
			var got bytes.Buffer
			if ach.NewWriter(&got).Write(g) != nil || !bytes.Equal(got.Bytes(), want.Bytes()) {
				continue
			}
		}
		path := filepath.Join(dir, "f.json")
		if os.WriteFile(path, js, 0o644) != nil {
			continue
		}
		t.Case(gen.Describe(f)+" "+optsKey(opts), "cli/reformat-ach", true)
		cmd := exec.Command(bin, "-reformat", "ach", path)
		var out bytes.Buffer
		cmd.Stdout = &out
		cmd.Stderr = &out
		done := make(chan error, 1)
		go func() { done <- cmd.Run() }()
		select {
		case err = <-done:
		case <-time.After(20 * time.Second):
			cmd.Process.Kill()
			t.Fail("C07/cli/reformat-ach/timeout", "achcli -reformat ach did not finish", FileInput(f), "timeout", "the writer's text")
			continue
		}
		if err != nil {
			t.Fail("C07/cli/reformat-ach/error", "achcli -reformat ach failed on a JSON file the library decodes", FileInput(f), out.String(), "exit 0")
			continue
		}
		if !bytes.Equal(out.Bytes(), want.Bytes()) {
			t.Fail("C07/cli/reformat-ach/text-differs/stored-validate-opts", "achcli -reformat ach prints a different NACHA text than the library writes for the same file (stored validateOpts not honoured?)",
				FileInput(f), out.String(), want.String())
		}
		// the other direction of the tool: -reformat json must print a JSON that still is the same file (its
		// validateOpts included): decoded by the library it writes the same text
		t.Case(gen.Describe(f)+" "+optsKey(opts), "cli/reformat-json", true)
		cmd2 := exec.Command(bin, "-reformat", "json", path)
		var out2, errb bytes.Buffer
		cmd2.Stdout = &out2
		cmd2.Stderr = &errb
		done2 := make(chan error, 1)
		go func() { done2 <- cmd2.Run() }()
		select {
		case err = <-done2:
		case <-time.After(20 * time.Second):
			cmd2.Process.Kill()
			t.Fail("C07/cli/reformat-json/timeout", "achcli -reformat json did not finish", FileInput(f), "timeout", "JSON")
			continue
		}
		if err != nil {
			t.Fail("C07/cli/reformat-json/error", "achcli -reformat json failed on a JSON file the library decodes", FileInput(f), out2.String()+errb.String(), "exit 0")
			continue
		}
		g2, err := ach.FileFromJSON(bytes.TrimSpace(out2.Bytes()))
		if err != nil || g2 == nil {
			t.Fail("C07/cli/reformat-json/output-does-not-decode", "the JSON achcli -reformat json prints does not decode", FileInput(f), fmtErr(err)+"\n"+clipStr(out2.String(), 3000), "a file")
			continue
		}
		var got2 bytes.Buffer
		if err := ach.NewWriter(&got2).Write(g2); err != nil {
			t.Fail("C07/cli/reformat-json/output-does-not-write", "the file decoded from achcli -reformat json output cannot be written", FileInput(f), err.Error(), "NACHA text")
			continue
		}
		if !bytes.Equal(got2.Bytes(), want.Bytes()) {
			t.Fail("C07/cli/reformat-json/text-differs/stored-validate-opts", "the JSON printed by achcli -reformat json decodes to a file with a different NACHA text (validateOpts lost?)",
				FileInput(f), got2.String(), want.String())
		}
	}
}

func fmtErr(err error) string {
	if err == nil {
		return "<nil>"
	}
	return err.Error()
}

func optsKey(o *ach.ValidateOpts) string {
	bs, _ := json.Marshal(o)
	return string(bs)
}
