// Package c07 holds the oracle for property C07: JSON and NACHA text are
// interchangeable representations of a file.
package c07

import (
	"bytes"
	"encoding/json"
	"fmt"
	"reflect"
	"strings"
	"time"

	"github.com/moov-io/ach"
	"verif/harness/gen"
	. "verif/harness/oracle"
)

// ---- the two achcli -reformat directions ------------------------------------
//
// /repo/cmd/achcli/reformat.go is in package main and cannot be imported; the
// few lines of reformat / readIncomingFile / readACHFile / readJsonFile
// (reformat.go, describe.go) are replicated here over byte slices instead of
// a path and os.Stdout.  Nothing else differs.

func cliRead(bs []byte, validateOpts *ach.ValidateOpts) (*ach.File, error) {
	if json.Valid(bs) {
		return ach.FileFromJSONWith(bs, validateOpts) // readJsonFile
	}
	r := ach.NewReader(bytes.NewReader(bs)) // readACHFile
	r.SetValidation(validateOpts)
	f, err := r.Read()
	return &f, err
}

func cliReformat(as string, bs []byte, validateOpts *ach.ValidateOpts) ([]byte, error) {
	file, err := cliRead(bs, validateOpts)
	if err != nil {
		return nil, err
	}
	var out bytes.Buffer
	switch as {
	case "ach":
		if err := ach.NewWriter(&out).Write(file); err != nil {
			return nil, err
		}
	case "json":
		if err := json.NewEncoder(&out).Encode(file); err != nil {
			return nil, err
		}
	default:
		return nil, fmt.Errorf("unknown format %s", as)
	}
	return out.Bytes(), nil
}

// ---- guarded calls ---------------------------------------------------------------

type outcome struct {
	f     *ach.File
	bs    []byte
	err   error
	panic string
	hang  bool
}

// guard runs fn with a recover and a timeout (FileFromJSON re-runs Batch.build,
// which can panic or spin on a batch with an Offset: D1).
func guard(fn func() (*ach.File, []byte, error)) outcome {
	ch := make(chan outcome, 1)
	go func() {
		var o outcome
		defer func() {
			if p := recover(); p != nil {
				o.panic = fmt.Sprint(p)
			}
			ch <- o
		}()
		o.f, o.bs, o.err = fn()
	}()
	select {
	case o := <-ch:
		return o
	case <-time.After(10 * time.Second):
		return outcome{hang: true}
	}
}

func write(f *ach.File, bypass bool) (string, error) {
	var buf bytes.Buffer
	w := ach.NewWriter(&buf)
	w.BypassValidation = bypass
	if err := w.Write(f); err != nil {
		return "", err
	}
	return buf.String(), nil
}

// ---- ValidateOpts flag sets ---------------------------------------------------------

var flagNames = func() []string {
	var out []string
	t := reflect.TypeOf(ach.ValidateOpts{})
	for i := 0; i < t.NumField(); i++ {
		if t.Field(i).Type.Kind() == reflect.Bool {
			out = append(out, t.Field(i).Name)
		}
	}
	return out
}()

func setFlag(o *ach.ValidateOpts, name string, v bool) {
	reflect.ValueOf(o).Elem().FieldByName(name).SetBool(v)
}

func flagsOf(o *ach.ValidateOpts) []string {
	var out []string
	if o == nil {
		return out
	}
	v := reflect.ValueOf(o).Elem()
	for _, n := range flagNames {
		if v.FieldByName(n).Bool() {
			out = append(out, n)
		}
	}
	return out
}

// pickOpts returns the i-th flag set: none (nil), the zero struct, every single
// flag in turn, random subsets, all flags.
func pickOpts(r *gen.Rand, i int) (*ach.ValidateOpts, string) {
	switch i % 8 {
	case 0, 1:
		return nil, "opts=nil"
	case 2:
		return &ach.ValidateOpts{}, "opts=zero"
	case 3:
		o := &ach.ValidateOpts{}
		setFlag(o, flagNames[(i/8)%len(flagNames)], true)
		return o, "opts=single-flag"
	case 4, 5, 6:
		o := &ach.ValidateOpts{}
		for _, n := range flagNames {
			if r.Chance(1, 4) {
				setFlag(o, n, true)
			}
		}
		return o, "opts=random-subset"
	default:
		o := &ach.ValidateOpts{}
		for _, n := range flagNames {
			setFlag(o, n, true)
		}
		if r.Bool() {
			o.SkipAll = false
		}
		return o, "opts=all-flags"
	}
}

// ---- structural difference (for signatures) -------------------------------------------

// diffPath walks two values of the same type and returns the path of the first
// exported field that differs, with slice indices removed ("" if none); with
// shallow, nested pointers / slices / structs of a struct are not entered.
// Identifiers and line numbers are not part of either representation's
// content and are skipped.
func diffPath(a, b reflect.Value, path string, shallow bool) string {
	if !a.IsValid() || !b.IsValid() {
		if a.IsValid() != b.IsValid() {
			return path
		}
		return ""
	}
	switch a.Kind() {
	case reflect.Ptr, reflect.Interface:
		if a.IsNil() || b.IsNil() {
			if a.IsNil() != b.IsNil() {
				return path + "(nil)"
			}
			return ""
		}
		if a.Kind() == reflect.Interface && a.Elem().Type() != b.Elem().Type() {
			return path + "(type)"
		}
		return diffPath(a.Elem(), b.Elem(), path, shallow)
	case reflect.Struct:
		t := a.Type()
		for i := 0; i < t.NumField(); i++ {
			f := t.Field(i)
			if f.PkgPath != "" && !f.Anonymous { // unexported
				continue
			}
			if f.PkgPath != "" && f.Anonymous { // unexported embedded (converters, validator)
				continue
			}
			if f.Name == "ID" || f.Name == "LineNumber" {
				continue
			}
			p := path + "." + f.Name
			if f.Anonymous {
				p = path
			}
			if k := f.Type.Kind(); shallow && !f.Anonymous && (k == reflect.Ptr || k == reflect.Slice || k == reflect.Interface || k == reflect.Struct) {
				continue // nested records are written as records of their own
			}
			if d := diffPath(a.Field(i), b.Field(i), p, shallow); d != "" {
				return d
			}
		}
		return ""
	case reflect.Slice:
		if a.Len() != b.Len() {
			return path + "(len)"
		}
		for i := 0; i < a.Len(); i++ {
			if d := diffPath(a.Index(i), b.Index(i), path, shallow); d != "" {
				return d
			}
		}
		return ""
	case reflect.Func, reflect.Map, reflect.Chan:
		return ""
	default:
		if a.CanInterface() && b.CanInterface() {
			if !reflect.DeepEqual(a.Interface(), b.Interface()) {
				return path
			}
			return ""
		}
		return ""
	}
}

// rec is one written record of a file: the struct it is rendered from, its
// name, and the SEC code of the batch it belongs to ("file" outside batches).
type rec struct {
	obj   any
	name  string
	sec   string
	batch int // index into File.Batches, -1 elsewhere
}

// records lists the records of f in the order the Writer emits them (records
// rendering as the empty string are skipped by the Writer and here).
func records(f *ach.File) []rec {
	var out []rec
	bi := -1
	add := func(obj interface{ String() string }, name, sec string) {
		if v := reflect.ValueOf(obj); v.Kind() == reflect.Ptr && v.IsNil() {
			return
		}
		if obj.String() == "" {
			return
		}
		out = append(out, rec{obj, name, sec, bi})
	}
	add(&f.Header, "FileHeader", "file")
	adv := f.IsADV()
	for i, b := range f.Batches {
		bi = i
		sec := b.GetHeader().StandardEntryClassCode
		kind := "std" // header and control are handled alike for every SEC but ADV
		if sec == ach.ADV {
			kind = ach.ADV
		}
		add(b.GetHeader(), "BatchHeader", kind)
		if !adv {
			for _, e := range b.GetEntries() {
				add(e, "EntryDetail", sec)
				add(e.Addenda02, "Addenda02", sec)
				for _, a := range e.Addenda05 {
					add(a, "Addenda05", sec)
				}
				add(e.Addenda98, "Addenda98", sec)
				add(e.Addenda98Refused, "Addenda98Refused", sec)
				add(e.Addenda99, "Addenda99", sec)
				add(e.Addenda99Dishonored, "Addenda99Dishonored", sec)
				add(e.Addenda99Contested, "Addenda99Contested", sec)
			}
		} else {
			for _, e := range b.GetADVEntries() {
				add(e, "ADVEntryDetail", sec)
				add(e.Addenda99, "Addenda99", sec)
			}
		}
		if sec != ach.ADV {
			add(b.GetControl(), "BatchControl", kind)
		} else {
			add(b.GetADVControl(), "ADVBatchControl", kind)
		}
	}
	bi = -1
	for i := range f.IATBatches {
		b := &f.IATBatches[i]
		add(b.GetHeader(), "IATBatchHeader", ach.IAT)
		for _, e := range b.GetEntries() {
			add(e, "IATEntryDetail", ach.IAT)
			add(e.Addenda10, "Addenda10", ach.IAT)
			add(e.Addenda11, "Addenda11", ach.IAT)
			add(e.Addenda12, "Addenda12", ach.IAT)
			add(e.Addenda13, "Addenda13", ach.IAT)
			add(e.Addenda14, "Addenda14", ach.IAT)
			add(e.Addenda15, "Addenda15", ach.IAT)
			add(e.Addenda16, "Addenda16", ach.IAT)
			for _, a := range e.Addenda17 {
				add(a, "Addenda17", ach.IAT)
			}
			for _, a := range e.Addenda18 {
				add(a, "Addenda18", ach.IAT)
			}
			add(e.Addenda98, "Addenda98", ach.IAT)
			add(e.Addenda99, "Addenda99", ach.IAT)
		}
		add(b.GetControl(), "BatchControl", ach.IAT)
	}
	if !adv {
		add(&f.Control, "FileControl", "file")
	} else {
		add(&f.ADVControl, "ADVFileControl", "file")
	}
	return out
}

// fileDiff explains a difference between the texts of two files: it finds the
// first record that is written differently and names the first exported
// scalar field of that record that differs, as "<SEC|file>/<Record>.<Field>".
func fileDiff(a, b *ach.File) (string, *rec) {
	ra, rb := records(a), records(b)
	for i := 0; i < len(ra) || i < len(rb); i++ {
		switch {
		case i >= len(rb):
			return ra[i].sec + "/" + ra[i].name + "/record-missing", &ra[i]
		case i >= len(ra):
			return rb[i].sec + "/" + rb[i].name + "/record-added", &rb[i]
		}
		x, y := ra[i], rb[i]
		if x.obj.(interface{ String() string }).String() == y.obj.(interface{ String() string }).String() {
			continue
		}
		if x.name != y.name {
			return x.sec + "/" + x.name + "/replaced-by-" + y.name, &x
		}
		if d := diffPath(reflect.ValueOf(x.obj), reflect.ValueOf(y.obj), x.name, true); d != "" {
			return x.sec + "/" + d, &x
		}
		return x.sec + "/" + x.name + "/no-exported-field-differs", &x
	}
	return "", nil
}

// textDiff describes the first differing line of two NACHA texts: record type
// (with the addenda type code) for the signature, both lines for the report.
func textDiff(want, got string) (rec, show string) {
	lw, lg := strings.Split(want, "\n"), strings.Split(got, "\n")
	for i := 0; i < len(lw) || i < len(lg); i++ {
		x, y := "<none>", "<none>"
		if i < len(lw) {
			x = lw[i]
		}
		if i < len(lg) {
			y = lg[i]
		}
		if x != y {
			rec = "record-" + x[:1]
			if strings.HasPrefix(x, "7") && len(x) > 3 {
				rec = "record-7" + x[1:3]
			}
			if x == "<none>" {
				rec = "extra-lines"
			}
			return rec, fmt.Sprintf("first difference at line %d:\nrequired: %s\nobserved: %s", i+1, x, y)
		}
	}
	return "", "no difference"
}

// ---- error classes ------------------------------------------------------------------------

func sanitize(s string) string {
	var b strings.Builder
	prev := byte('-')
	for _, r := range s {
		c := byte('-')
		switch {
		case r >= '0' && r <= '9':
			c = 'N'
		case r >= 'a' && r <= 'z', r >= 'A' && r <= 'Z':
			c = byte(r)
		}
		if (c == '-' || c == 'N') && prev == c {
			continue
		}
		b.WriteByte(c)
		prev = c
	}
	out := strings.Trim(b.String(), "-")
	if len(out) > 56 {
		out = out[:56]
	}
	return out
}

// errClass reduces a library error to a stable class: the SEC and field names
// of the wrapping BatchError / FieldError and the Go type (or, for plain
// errors, the digit-free message) of the innermost error.
func errClass(err error) string {
	var parts []string
	for e := err; e != nil; {
		switch v := e.(type) {
		case *ach.BatchError:
			parts = append(parts, v.BatchType, v.FieldName)
			e = v.Err
			continue
		case *ach.FieldError:
			parts = append(parts, v.FieldName)
			e = v.Err
			continue
		}
		tn := strings.TrimPrefix(fmt.Sprintf("%T", e), "*")
		if strings.HasPrefix(tn, "ach.") {
			parts = append(parts, strings.TrimPrefix(tn, "ach."))
		} else {
			parts = append(parts, sanitize(e.Error()))
		}
		break
	}
	return strings.Join(parts, "/")
}

// errKind is the file kind, unless the error names the batch type itself.
func errKind(err error, kind string) string {
	if _, ok := err.(*ach.BatchError); ok {
		return "batch"
	}
	return kind
}

// offsetRelated says whether a differing record of a batch with an Offset is
// one that rebuilding the offsets touches: an OFFSET entry or the batch
// header / control (other entries of the batch are left alone, and so is the
// name of an OFFSET entry).
func offsetRelated(r *rec) bool {
	if e, ok := r.obj.(*ach.EntryDetail); ok {
		return strings.EqualFold(strings.TrimSpace(e.IndividualName), "OFFSET")
	}
	return r.name == "BatchHeader" || r.name == "BatchControl"
}

// offsetBatch marks a batch error that names a batch carrying an Offset (such a
// batch is rebuilt with its OFFSET entries already present: D1).
func offsetBatch(err error, orig *ach.File, offsets []string) string {
	be, ok := err.(*ach.BatchError)
	if !ok {
		return ""
	}
	for i, b := range orig.Batches {
		if i < len(offsets) && offsets[i] != "null" && b.GetHeader().BatchNumber == be.BatchNumber {
			return "/batch-with-offset"
		}
	}
	return ""
}

// ---- the oracle -----------------------------------------------------------------------------

func init() {
	Register("C07", &Oracle{
		Rule: "tabulated valid generator files: every SEC in rotation (22 Batcher SECs, IAT, ADV) and mixed files, categories Forward/Return/NOC/RefusedNOC/Dishonored/Contested, 0..3 repeatable addenda, " +
			"offsets, pre-set traces, full-width and Latin-1 fields; ValidateOpts on the file: nil, zero, every single flag in turn, random subsets, all flags (half of the files that store BypassOriginValidation / BypassDestinationValidation carry a ten-character origin / destination); " +
			"paths: json.Marshal -> ach.FileFromJSON, json.Marshal -> (*File).UnmarshalJSON, Writer -> Reader -> json.Marshal -> FileFromJSON, and the two achcli -reformat directions (its few lines replicated: package main); " +
			"distinct = distinct (SECs, categories, addenda kinds, offsets, flag set); non-trivial = every case (each has at least one entry)",
		Run: func(t *T) {
			run(t)
			cli(t)
		},
	})
}

func run(t *T) {
	n := t.Budget(2500)
	secs := gen.AllSECs()
	for i := 0; i < n; i++ {
		r := t.R.Fork(uint64(i))
		o := gen.Opts{
			IATCorrections: true,
			Categories:     gen.AllCategories(),
			MinBatches:     1,
			MaxBatches:     1 + r.Intn(4),
			MaxEntries:     1 + r.Intn(4),
			MaxAddenda:     r.Range(-1, 3),
			Offset:         r.Chance(1, 3),
			PresetTraces:   r.Bool(),
			FullWidth:      r.Chance(1, 4),
			NonASCII:       r.Chance(1, 6),
		}
		if o.MaxAddenda == 0 {
			o.MaxAddenda = 2
		}
		if k := i % 3; k != 0 {
			// two thirds of the cases are single-SEC files, every SEC in rotation
			o.SECs = []string{secs[(i/3*2+k-1)%len(secs)]}
		}
		if r.Chance(1, 5) {
			o.Categories = nil
		}
		if i%7 == 0 {
			// files whose batches mostly carry an Offset (only these SECs admit one)
			o.SECs, o.Categories, o.Offset = []string{ach.PPD, ach.CCD, ach.CTX, ach.WEB}, nil, true
		}
		f, err := gen.File(r, o)
		if err != nil {
			t.Fail("C07/generator", "generator failed", fmt.Sprintf("%+v", o), err.Error(), "a valid file")
			continue
		}
		opts, optClass := pickOpts(r, i)
		f.SetValidation(opts)
		// a ten-character origin / destination ("1" + tax id): only the stored bypass option keeps all ten characters
		// in the header record, so the option must survive every decode path for the text to come back
		if opts != nil && opts.BypassOriginValidation && r.Chance(1, 2) {
			old := f.Header.ImmediateOrigin
			f.Header.ImmediateOrigin = fmt.Sprintf("1%09d", r.Intn(1000000000))
			if f.Validate() != nil {
				f.Header.ImmediateOrigin = old
			} else {
				optClass += "+ten-char-origin"
			}
		}
		if opts != nil && opts.BypassDestinationValidation && r.Chance(1, 2) {
			old := f.Header.ImmediateDestination
			f.Header.ImmediateDestination = fmt.Sprintf("1%09d", r.Intn(1000000000))
			if f.Validate() != nil {
				f.Header.ImmediateDestination = old
			} else {
				optClass += "+ten-char-destination"
			}
		}
		if err := f.Validate(); err != nil && opts != nil && opts.RequireABAOrigin {
			opts.RequireABAOrigin = false // the only flag that tightens validation
			f.SetValidation(opts)
		}
		if err := f.Validate(); err != nil {
			t.Fail("C07/generator", "input file is not valid under its own ValidateOpts", FileInput(f), err.Error(), "a valid file")
			continue
		}
		checkFile(t, r, f, opts, optClass)
	}
	runForeignTraces(t)
	runForeignTracesFromText(t)
}

// runForeignTraces: files whose entries carry trace numbers that do not start with their batch's ODFI (numbers
// assigned by a gateway operator), legal under CustomTraceNumbers / BypassOriginValidation — the options under which
// Create must leave trace numbers alone, also on the JSON decode path, for standard and IAT batches alike.
func runForeignTraces(t *T) {
	n := t.Budget(300)
	for i := 0; i < n; i++ {
		r := t.R.Fork(uint64(700000 + i))
		o := gen.Opts{IATCorrections: true, MinBatches: 1, MaxBatches: 1 + r.Intn(3), MaxEntries: 1 + r.Intn(3), MaxAddenda: 2}
		switch i % 3 {
		case 0:
			o.SECs = []string{ach.IAT}
		case 1:
			o.SECs = []string{ach.IAT, ach.PPD, ach.CCD}
		default:
			o.SECs = []string{ach.PPD, ach.CCD, ach.WEB, ach.CTX}
		}
		f, err := gen.File(r, o)
		if err != nil {
			continue
		}
		opts := &ach.ValidateOpts{}
		optClass := ""
		switch r.Intn(3) {
		case 0:
			opts.CustomTraceNumbers, optClass = true, "CustomTraceNumbers"
		case 1:
			opts.BypassOriginValidation, optClass = true, "BypassOriginValidation"
		default:
			opts.CustomTraceNumbers, opts.BypassOriginValidation, optClass = true, true, "CustomTraceNumbers+BypassOriginValidation"
		}
		f.SetValidation(opts)
		prefix := fmt.Sprintf("%08d", 10000000+r.Intn(89999999))
		seq := 1 + r.Intn(50)
		for _, b := range f.Batches {
			b.SetValidation(opts)
			for _, e := range b.GetEntries() {
				e.TraceNumber = fmt.Sprintf("%s%07d", prefix, seq)
				seq += 1 + r.Intn(3)
			}
		}
		for j := range f.IATBatches {
			b := &f.IATBatches[j]
			b.SetValidation(opts)
			for _, e := range b.GetEntries() {
				e.TraceNumber = fmt.Sprintf("%s%07d", prefix, seq)
				seq += 1 + r.Intn(3)
			}
		}
		ok := true
		func() {
			defer func() {
				if recover() != nil {
					ok = false
				}
			}()
			for _, b := range f.Batches {
				if b.Create() != nil {
					ok = false
				}
			}
			for j := range f.IATBatches {
				if f.IATBatches[j].Create() != nil {
					ok = false
				}
			}
			if f.Create() != nil || f.Validate() != nil {
				ok = false
			}
		}()
		if !ok {
			t.Case(fmt.Sprintf("foreign-traces %d not-valid", i), "foreign-traces/"+optClass+"/not-valid-under-its-options (skipped)", false)
			continue
		}
		checkFile(t, r, f, opts, "foreign-traces/"+optClass)
	}
}

func kindOf(f *ach.File) string {
	switch {
	case f.IsADV():
		return "ADV"
	case len(f.Batches) > 0 && len(f.IATBatches) > 0:
		return "std+IAT"
	case len(f.IATBatches) > 0:
		return "IAT"
	}
	return "std"
}

// offsetsOf extracts the serialised offset configuration of every batch from
// the JSON of a file (the Offset of a Batch is unexported; MarshalJSON emits
// it under "offset").
func offsetsOf(js []byte) ([]string, error) {
	var v struct {
		Batches []struct {
			Offset json.RawMessage `json:"offset"`
		} `json:"batches"`
	}
	if err := json.Unmarshal(js, &v); err != nil {
		return nil, err
	}
	out := make([]string, len(v.Batches))
	for i, b := range v.Batches {
		var c bytes.Buffer
		if len(b.Offset) == 0 {
			out[i] = "null"
		} else if err := json.Compact(&c, b.Offset); err == nil {
			out[i] = c.String()
		} else {
			out[i] = string(b.Offset)
		}
	}
	return out, nil
}

// expectedOffsets reconstructs, independently of MarshalJSON, the Offset each
// batch of a generator file was given: Batch.Create appended entries named
// OFFSET that carry the offset's routing number, account number, account type
// (checking 22/27, savings 32/37) and description.  "null" = no offset.
func expectedOffsets(f *ach.File) []string {
	out := make([]string, len(f.Batches))
	for i, b := range f.Batches {
		out[i] = "null"
		for _, e := range b.GetEntries() {
			if e.IndividualName != "OFFSET" {
				continue
			}
			off := ach.Offset{RoutingNumber: e.RDFIIdentification + e.CheckDigit, AccountNumber: e.DFIAccountNumber,
				AccountType: ach.OffsetChecking, Description: e.DiscretionaryData}
			if e.TransactionCode/10 == 3 {
				off.AccountType = ach.OffsetSavings
			}
			if js, err := json.Marshal(off); err == nil {
				out[i] = string(js)
			}
			break
		}
	}
	return out
}

type ctx struct {
	t     *T
	input map[string]any
	// failure details already reported for this case (so that the same root
	// cause is not reported once per path)
	seen map[string]bool
}

// fail reports a failure once per case and signature (via only documents the call site).
func (c *ctx) fail(sig, via, what, observed, required string) {
	if c.seen[sig] {
		return
	}
	c.seen[sig] = true
	c.t.Fail(sig, what, c.input, observed, required)
}

// checkDecoded compares a decoded file with the original: NACHA text,
// ValidateOpts, offsets.  via names the path for the report; only names the
// path in the signature when the plain marshal -> FileFromJSON path of the
// same case was clean (so one root cause keeps one signature).
func checkDecoded(c *ctx, via string, baseClean bool, o outcome, orig *ach.File, text0 string, opts *ach.ValidateOpts, offsets0 []string, hasOffsets bool) bool {
	suffix := ""
	if baseClean && via != "FileFromJSON" {
		suffix = "/only-via-" + via
	}
	kind := kindOf(orig)
	// a panic / hang names its cause itself; what matters for its class is
	// whether a batch with an Offset is rebuilt (D1), not the kind of file
	off := "no-offsets"
	if hasOffsets {
		off = "batch-with-offset"
	}
	switch {
	case o.hang:
		c.fail("C07/decode-hang/"+off+suffix, via, "decoding the JSON of a tabulated file did not return within 10s ("+via+")", "no result", "a file writing the same NACHA text")
		return false
	case o.panic != "":
		c.fail("C07/decode-panic/"+off+"/"+sanitize(o.panic)+suffix, via, "decoding the JSON of a tabulated file panicked ("+via+")", o.panic, "a file writing the same NACHA text")
		return false
	case o.err != nil:
		sig := "C07/decode-error/" + errKind(o.err, kind) + "/" + errClass(o.err)
		if ob := offsetBatch(o.err, orig, offsets0); ob != "" {
			// the SEC code does not matter for a batch that is rebuilt with its OFFSET entries present
			// (nor which control figure is noticed first)
			sig = "C07/decode-error" + ob
		}
		c.fail(sig+suffix, via, "decoding the JSON of a tabulated file failed ("+via+")", o.err.Error(), "a file writing the same NACHA text")
		return false
	case o.f == nil:
		c.fail("C07/decode-nil/"+kind+suffix, via, "decoding returned no file and no error ("+via+")", "nil", "a file")
		return false
	}
	ok := true
	text1, err := write(o.f, false)
	if err != nil {
		ok = false
		detail := ""
		if t1, err2 := write(o.f, true); err2 == nil && t1 != text0 {
			_, detail = textDiff(text0, t1)
		}
		c.fail("C07/decoded-unwritable/"+kind+"/"+errClass(err)+suffix, via, "the decoded file is rejected by the Writer ("+via+")", err.Error()+"\n"+detail, "the original's NACHA text")
	} else if text1 != text0 {
		ok = false
		rec, show := textDiff(text0, text1)
		d, at := fileDiff(orig, o.f)
		if d == "" {
			d = kind + "/" + rec + "/layout" // same records, different text: padding / line structure
		} else if at.batch >= 0 && at.batch < len(offsets0) && offsets0[at.batch] != "null" && offsetRelated(at) && !strings.HasSuffix(d, ".IndividualName") {
			// a batch rebuilt with its OFFSET entries present (D1): the SEC code does not matter
			d = "batch-with-offset"
		}
		c.fail("C07/text-differs/"+d+suffix, via, "the decoded file writes a different NACHA text ("+via+")", show, "byte-identical NACHA text")
	}
	// validation options
	got := o.f.GetValidation()
	a, b := flagsOf(opts), flagsOf(got)
	if strings.Join(a, ",") != strings.Join(b, ",") {
		ok = false
		set := map[string]int{}
		for _, n := range a {
			set[n]++
		}
		for _, n := range b {
			set[n] += 2
		}
		var lost, added []string
		for _, n := range flagNames {
			switch set[n] {
			case 1:
				lost = append(lost, n)
			case 2:
				added = append(added, n)
			}
		}
		detail := "added/" + strings.Join(added[:min(1, len(added))], "")
		switch {
		case len(lost) > 0 && len(b) == 0 && len(a) > 1:
			detail = "all-lost"
		case len(lost) > 0:
			detail = "lost/" + lost[0]
		}
		c.fail("C07/validate-opts/"+detail+suffix, via, "ValidateOpts stored on the file did not survive the JSON round trip ("+via+")",
			fmt.Sprintf("flags after: %v", b), fmt.Sprintf("flags before: %v", a))
	}
	// offsets
	if js, err := json.Marshal(o.f); err == nil {
		if offs, err := offsetsOf(js); err == nil {
			if len(offs) != len(offsets0) {
				if ok { // otherwise already reported as a text difference
					c.fail("C07/offsets/batch-count"+suffix, via, "number of batches changed ("+via+")", fmt.Sprint(len(offs)), fmt.Sprint(len(offsets0)))
				}
				ok = false
			} else {
				for i := range offs {
					if offs[i] != offsets0[i] {
						ok = false
						what := "changed"
						if offs[i] == "null" {
							what = "lost"
						} else if offsets0[i] == "null" {
							what = "added"
						}
						c.fail("C07/offsets/"+what+suffix, via, "the Offset of a batch did not survive the JSON round trip ("+via+")", offs[i], offsets0[i])
						break
					}
				}
			}
		}
	}
	return ok
}

func checkFile(t *T, r *gen.Rand, f *ach.File, opts *ach.ValidateOpts, optClass string) {
	text0, err := write(f, false)
	if err != nil {
		t.Fail("C07/generator", "the Writer rejects the generated file", FileInput(f), err.Error(), "NACHA text")
		return
	}
	js0, err := json.Marshal(f)
	if err != nil {
		t.Case(gen.Describe(f), "marshal-error", true)
		t.Fail("C07/marshal-error/"+errClass(err), "json.Marshal of a tabulated file failed", FileInput(f), err.Error(), "JSON")
		return
	}
	inJSON, err := offsetsOf(js0)
	if err != nil {
		t.Fail("C07/marshal-invalid-json", "the JSON of a file cannot be parsed back generically", FileInput(f), err.Error(), "valid JSON")
		return
	}
	offsets0 := expectedOffsets(f)
	hasOffsets := false
	for _, o := range offsets0 {
		hasOffsets = hasOffsets || o != "null"
	}
	st := gen.NewStats()
	st.Add(f)
	key := fmt.Sprintf("%s flags=%v", strings.SplitN(gen.Describe(f), " ", 2)[1], flagsOf(opts))
	class := kindOf(f) + "/" + optClass
	if hasOffsets {
		class += "/offsets"
	}
	t.Case(key, class, st.Entries > 0)

	input := map[string]any{"describe": gen.Describe(f), "nacha_text": text0, "validate_opts": flagsOf(opts), "opts_nil": opts == nil}
	if len(js0) <= 20000 {
		input["json"] = string(js0)
	} else {
		input["json"] = string(js0[:20000])
	}
	c := &ctx{t: t, input: input, seen: map[string]bool{}}
	for i := range offsets0 {
		if offsets0[i] == "null" && i < len(inJSON) {
			// no OFFSET entry: either no Offset, or one that balanced nothing (all
			// amounts zero); only the JSON can tell, so it is the reference here
			offsets0[i] = inJSON[i]
		}
		if i >= len(inJSON) || inJSON[i] != offsets0[i] {
			got := "<no such batch>"
			if i < len(inJSON) {
				got = inJSON[i]
			}
			what := "changed"
			if got == "null" {
				what = "lost"
			}
			c.fail("C07/offsets/"+what+"/by-json.Marshal", "", "the JSON of the file does not carry the Offset a batch was created with", got, offsets0[i])
			break
		}
	}

	// (a) json.Marshal -> ach.FileFromJSON
	o1 := guard(func() (*ach.File, []byte, error) { f1, err := ach.FileFromJSON(js0); return f1, nil, err })
	baseClean := checkDecoded(c, "FileFromJSON", false, o1, f, text0, opts, offsets0, hasOffsets)

	// (a') json.Marshal -> (*File).UnmarshalJSON, into a fresh File and into ach.NewFile()
	o2 := guard(func() (*ach.File, []byte, error) {
		f2 := &ach.File{}
		if r.Bool() {
			f2 = ach.NewFile()
		}
		err := json.Unmarshal(js0, f2)
		return f2, nil, err
	})
	checkDecoded(c, "UnmarshalJSON", baseClean, o2, f, text0, opts, offsets0, hasOffsets)

	// (b) text -> Reader -> json.Marshal -> FileFromJSON -> text.  The reader is
	// given the file's ValidateOpts half of the time (as achcli -validate does).
	readOpts := opts
	if r.Bool() && !strings.HasPrefix(optClass, "foreign-traces") && !strings.Contains(optClass, "+ten-char-") {
		// (a file with foreign trace numbers is only readable under its options; a ten-character origin or
		// destination is only kept by a header that carries the bypass option, which the text does not record)
		readOpts = nil
	}
	rd := ach.NewReader(strings.NewReader(text0))
	rd.SetValidation(readOpts)
	fr, err := rd.Read()
	if err != nil {
		c.fail("C07/precondition/read-error/"+kindOf(f)+"/"+errClass(firstErr(err)), "", "the text of a valid generator file cannot be read back (precondition of the text -> JSON direction)", err.Error(), "a file")
	} else {
		noOffsets := make([]string, len(offsets0))
		for i := range noOffsets {
			noOffsets[i] = "null" // the offset configuration is not part of the NACHA text
		}
		jsr, err := json.Marshal(&fr)
		if err != nil {
			c.fail("C07/marshal-error/"+errClass(err)+"/only-via-read", "", "json.Marshal of a file read from text failed", err.Error(), "JSON")
		} else {
			o3 := guard(func() (*ach.File, []byte, error) { f3, err := ach.FileFromJSON(jsr); return f3, nil, err })
			c.input["json_of_read_file"] = clipJSON(jsr)
			bClean := checkDecoded(c, "read", baseClean, o3, &fr, text0, readOpts, noOffsets, false)
			delete(c.input, "json_of_read_file")

			// (d) achcli -reformat json <text>  then  achcli -reformat ach <json>
			cliOpts := readOpts
			o4 := guard(func() (*ach.File, []byte, error) {
				j, err := cliReformat("json", []byte(text0), cliOpts)
				if err != nil {
					return nil, nil, fmt.Errorf("-reformat json: %w", err)
				}
				a, err := cliReformat("ach", j, cliOpts)
				if err != nil {
					return nil, nil, fmt.Errorf("-reformat ach: %w", err)
				}
				return nil, a, nil
			})
			checkCLI(c, "achcli-reformat-json-then-ach", bClean && baseClean, o4, f, text0, false)
		}
	}
	// (d') achcli -reformat ach <json of the original>, and -reformat json of that JSON first
	twice := r.Bool()
	o5 := guard(func() (*ach.File, []byte, error) {
		j := js0
		if twice {
			var err error
			if j, err = cliReformat("json", js0, nil); err != nil {
				return nil, nil, fmt.Errorf("-reformat json: %w", err)
			}
		}
		a, err := cliReformat("ach", j, nil)
		if err != nil {
			return nil, nil, fmt.Errorf("-reformat ach: %w", err)
		}
		return nil, a, nil
	})
	checkCLI(c, "achcli-reformat-ach-of-json", baseClean, o5, f, text0, hasOffsets)
}

func clipJSON(js []byte) string {
	if len(js) > 20000 {
		js = js[:20000]
	}
	return string(js)
}

// firstErr unwraps the first error of the Reader's error list.
func firstErr(err error) error {
	type multi interface{ Unwrap() []error }
	if m, ok := err.(multi); ok && len(m.Unwrap()) > 0 {
		return m.Unwrap()[0]
	}
	return err
}

func checkCLI(c *ctx, via string, clean bool, o outcome, orig *ach.File, text0 string, hasOffsets bool) {
	suffix := ""
	if clean {
		suffix = "/only-via-" + via
	}
	kind := kindOf(orig)
	off := "no-offsets"
	if hasOffsets {
		off = "batch-with-offset"
	}
	switch {
	case o.hang:
		c.fail("C07/decode-hang/"+off+suffix, via, "the reformat chain did not return within 10s ("+via+")", "no result", "the original NACHA text")
	case o.panic != "":
		c.fail("C07/decode-panic/"+off+"/"+sanitize(o.panic)+suffix, via, "the reformat chain panicked ("+via+")", o.panic, "the original NACHA text")
	case o.err != nil:
		if !clean {
			return // the library path behind it has already been reported
		}
		c.fail("C07/reformat-error/"+kind+"/"+errClass(o.err)+suffix, via, "the reformat chain failed ("+via+")", o.err.Error(), "the original NACHA text")
	case string(o.bs) != text0:
		if !clean {
			return
		}
		rec, show := textDiff(text0, string(o.bs))
		c.fail("C07/text-differs/"+kind+"/"+rec+suffix, via, "the reformat chain writes a different NACHA text ("+via+")", show, "byte-identical NACHA text")
	}
}
