package c07

import (
	"bytes"
	"encoding/json"
	"fmt"
	"strings"

	"github.com/moov-io/ach"
	"verif/harness/gen"
	. "verif/harness/oracle"
)

// runForeignTracesFromText: the second sentence of C07 for texts whose trace numbers do not start with the ODFI of
// their batch.  The text is produced without the library's help (the eight prefix columns of every entry's trace
// number are overwritten in the text of a generated file; the sequence part and with it every addenda sequence number
// stays), read under CustomTraceNumbers, BypassOriginValidation or both — reading never re-tabulates — and the JSON of
// the file read is decoded again (which does): the decoded file must write the text of the file read.
func runForeignTracesFromText(t *T) {
	n := t.Budget(150)
	for i := 0; i < n; i++ {
		r := t.R.Fork(uint64(710000 + i))
		o := gen.Opts{MinBatches: 1, MaxBatches: 1 + r.Intn(2), MaxEntries: 1 + r.Intn(3), MaxAddenda: 2}
		kind := ""
		switch i % 3 {
		case 0:
			o.SECs, kind = []string{ach.IAT}, "IAT"
		case 1:
			o.SECs, kind = []string{ach.IAT, ach.PPD, ach.CCD}, "IAT+std"
		default:
			o.SECs, kind = []string{ach.PPD, ach.CCD, ach.WEB, ach.TEL}, "std" // not CTX / ATX: their composite name field has a known finding of its own
		}
		f, err := gen.File(r, o)
		if err != nil {
			continue
		}
		text0, err := write(f, false)
		if err != nil {
			continue
		}
		prefix := fmt.Sprintf("%08d", 10000000+r.Intn(89999999))
		lines := strings.Split(text0, "\n")
		for li, l := range lines {
			if len(l) == 94 && l[0] == '6' {
				lines[li] = l[:79] + prefix + l[87:]
			}
		}
		text := strings.Join(lines, "\n")
		opts := &ach.ValidateOpts{}
		optClass := ""
		switch i % 3 {
		case 0:
			opts.CustomTraceNumbers, optClass = true, "CustomTraceNumbers"
		case 1:
			opts.BypassOriginValidation, optClass = true, "BypassOriginValidation"
		default:
			opts.CustomTraceNumbers, opts.BypassOriginValidation, optClass = true, true, "CustomTraceNumbers+BypassOriginValidation"
		}
		if (i/3)%2 == 1 { // rotate which option set meets which kind of file
			switch optClass {
			case "CustomTraceNumbers":
				*opts, optClass = ach.ValidateOpts{BypassOriginValidation: true}, "BypassOriginValidation"
			case "BypassOriginValidation":
				*opts, optClass = ach.ValidateOpts{CustomTraceNumbers: true}, "CustomTraceNumbers"
			}
		}
		rd := ach.NewReader(strings.NewReader(text))
		rd.SetValidation(opts)
		g, err := rd.Read()
		if err != nil {
			t.Case(fmt.Sprintf("foreign-text %d", i), "foreign-traces-from-text/"+optClass+"/"+kind+"/not-readable (skipped)", false)
			continue
		}
		t.Case(fmt.Sprintf("foreign-text %s %s %d", kind, optClass, i%12), "foreign-traces-from-text/"+optClass+"/"+kind, true)
		var w1 bytes.Buffer
		wr := ach.NewWriter(&w1)
		if err := wr.Write(&g); err != nil {
			continue
		}
		js, err := json.Marshal(&g)
		if err != nil {
			continue
		}
		h, err := ach.FileFromJSON(js)
		input := map[string]any{"nacha_text": text, "validate_opts": flagsOf(opts), "json": clipStr(string(js), 12000)}
		if err != nil || h == nil {
			t.Fail("C07/foreign-traces-from-text/decode-error/"+optClass+"/"+kind, "the JSON of a file read from valid text (under the options it carries) does not decode", input, fmt.Sprint(err), "a file")
			continue
		}
		var w2 bytes.Buffer
		wr2 := ach.NewWriter(&w2)
		if err := wr2.Write(h); err != nil {
			t.Fail("C07/foreign-traces-from-text/write-error/"+optClass+"/"+kind, "the file decoded from the JSON of a file read from valid text cannot be written", input, err.Error(), "NACHA text")
			continue
		}
		if w1.String() != w2.String() {
			a, b := strings.Split(w1.String(), "\n"), strings.Split(w2.String(), "\n")
			diff := ""
			for k := 0; k < len(a) && k < len(b); k++ {
				if a[k] != b[k] {
					diff = fmt.Sprintf("line %d: read %q / decoded %q", k+1, a[k], b[k])
					break
				}
			}
			t.Fail("C07/foreign-traces-from-text/text-differs/"+optClass+"/"+kind, "the JSON of a file read from text decodes to a file that writes a different text", input, diff, "byte-identical text")
		}
	}
}

func clipStr(s string, n int) string {
	if len(s) > n {
		return s[:n]
	}
	return s
}
