// Package c07 holds the oracle for property C07.
package c07
