package c14

import (
	"bytes"
	"strings"

	"verif/harness/gen"
)

// Structure-aware mutation of NACHA text.  Everything is driven by *gen.Rand.

// field boundaries (rune/byte columns for ASCII lines) by record type
var layouts = map[byte][]int{
	'1': {0, 1, 3, 13, 23, 29, 33, 34, 37, 39, 40, 63, 86, 94},
	'5': {0, 1, 4, 20, 40, 50, 53, 63, 69, 75, 78, 79, 87, 94},
	'6': {0, 1, 3, 11, 12, 29, 39, 54, 76, 78, 79, 94},
	'7': {0, 1, 3, 6, 21, 27, 35, 64, 79, 83, 87, 94},
	'8': {0, 1, 4, 10, 20, 32, 44, 54, 73, 79, 87, 94},
	'9': {0, 1, 7, 13, 21, 31, 43, 55, 94},
}

var secCodes = []string{"ACK", "ADV", "ARC", "ATX", "BOC", "CCD", "CIE", "COR", "CTX", "DNE", "ENR", "IAT", "MTE", "POP", "POS", "PPD",
	"RCK", "SHR", "TEL", "TRC", "TRX", "WEB", "XCK", "ZZZ", "   ", "ppd", "IA\xc3"}

var txCodes = []string{"21", "22", "23", "24", "26", "27", "28", "29", "31", "32", "33", "34", "36", "37", "38", "39", "41", "42", "43", "44",
	"46", "47", "48", "49", "51", "52", "53", "54", "55", "56", "81", "82", "83", "84", "85", "86", "87", "88", "00", "99", "  ", "-1", "2A"}

var addendaTypes = []string{"02", "05", "10", "11", "12", "13", "14", "15", "16", "17", "18", "98", "99", "00", "  ", "9A", "01", "97"}

var multi = []string{"é", "ñ", " ", "漢", "😀", "\xff", "\xc3", "\xe2\x82", "\x00", "\t", " ", "ß", "İ"}

var noise = []byte("0123456789 ABCXYZabcxyz-+.,/*&$#\n\r\t\x00\xff\xc3\xa9\xe2")

func splitLines(b []byte) []string {
	s := string(b)
	s = strings.ReplaceAll(s, "\r\n", "\n")
	return strings.Split(s, "\n")
}

func boundaryValue(r *gen.Rand, w int) string {
	if w <= 0 {
		w = 1
	}
	switch r.Intn(14) {
	case 0:
		return strings.Repeat(" ", w)
	case 1:
		return strings.Repeat("0", w)
	case 2:
		return strings.Repeat("9", w)
	case 3:
		return strings.Repeat("A", w)
	case 4:
		return "-" + strings.Repeat("1", w-1)
	case 5:
		return strings.Repeat("z", w)
	case 6:
		return strings.Repeat(gen.Pick(r, multi), w) // same rune count, more bytes
	case 7:
		return strings.Repeat("0", w-1) // one short: shifts the rest of the line
	case 8:
		return strings.Repeat("7", w+1+r.Intn(3)) // too long
	case 9:
		return strings.Repeat(" ", w-1) + "1"
	case 10:
		return "1" + strings.Repeat(" ", w-1)
	case 11:
		return strings.Repeat(".", w)
	case 12:
		s := []byte(strings.Repeat("5", w))
		s[r.Intn(w)] = 'x'
		return string(s)
	default:
		s := make([]byte, w)
		for i := range s {
			s[i] = noise[r.Intn(len(noise)-8)] // printable part + controls
		}
		return string(s)
	}
}

// replaceCols replaces columns [a,b) of an (assumed ASCII) line.
func replaceCols(line string, a, b int, v string) string {
	if a > len(line) {
		a = len(line)
	}
	if b > len(line) {
		b = len(line)
	}
	if a > b {
		a = b
	}
	return line[:a] + v + line[b:]
}

func pickLine(r *gen.Rand, lines []string, first byte) int {
	var idx []int
	for i, l := range lines {
		if len(l) > 0 && (first == 0 || l[0] == first) {
			idx = append(idx, i)
		}
	}
	if len(idx) == 0 {
		return -1
	}
	return gen.Pick(r, idx)
}

// mutateOnce applies one mutation and names it.
func mutateOnce(r *gen.Rand, src []byte, pool [][]byte) ([]byte, string) {
	kind := r.Intn(24)
	switch kind {
	case 0: // flip bytes
		if len(src) == 0 {
			return src, "flip"
		}
		out := append([]byte(nil), src...)
		for n := 1 + r.Intn(4); n > 0; n-- {
			i := r.Intn(len(out))
			if r.Bool() {
				out[i] ^= 1 << uint(r.Intn(8))
			} else {
				out[i] = noise[r.Intn(len(noise))]
			}
		}
		return out, "flip"
	case 1: // insert bytes
		i := r.Intn(len(src) + 1)
		n := 1 + r.Intn(8)
		ins := make([]byte, n)
		for j := range ins {
			ins[j] = noise[r.Intn(len(noise))]
		}
		out := append(append(append([]byte(nil), src[:i]...), ins...), src[i:]...)
		return out, "insert"
	case 2: // delete a byte range
		if len(src) == 0 {
			return src, "delete"
		}
		i := r.Intn(len(src))
		n := 1 + r.Intn(100)
		if r.Bool() {
			n = 1 + r.Intn(3)
		}
		if i+n > len(src) {
			n = len(src) - i
		}
		out := append(append([]byte(nil), src[:i]...), src[i+n:]...)
		return out, "delete"
	case 3: // truncate
		if len(src) == 0 {
			return src, "truncate"
		}
		return append([]byte(nil), src[:r.Intn(len(src))]...), "truncate"
	}
	lines := splitLines(src)
	join := func() []byte {
		sep := "\n"
		if bytes.Contains(src, []byte("\r\n")) {
			sep = "\r\n"
		}
		return []byte(strings.Join(lines, sep))
	}
	switch kind {
	case 4: // duplicate a line
		i := pickLine(r, lines, 0)
		if i < 0 {
			return src, "dup-line"
		}
		n := 1 + r.Intn(3)
		var out []string
		out = append(out, lines[:i+1]...)
		for ; n > 0; n-- {
			out = append(out, lines[i])
		}
		out = append(out, lines[i+1:]...)
		lines = out
		return join(), "dup-line"
	case 5: // delete a line
		i := pickLine(r, lines, 0)
		if i < 0 {
			return src, "del-line"
		}
		lines = append(append([]string(nil), lines[:i]...), lines[i+1:]...)
		return join(), "del-line"
	case 6: // swap / move lines
		i, j := pickLine(r, lines, 0), pickLine(r, lines, 0)
		if i < 0 {
			return src, "swap-lines"
		}
		lines = append([]string(nil), lines...)
		lines[i], lines[j] = lines[j], lines[i]
		return join(), "swap-lines"
	case 7: // splice with another file
		if len(pool) == 0 {
			return src, "splice"
		}
		other := splitLines(gen.Pick(r, pool))
		i, j := r.Intn(len(lines)+1), r.Intn(len(other)+1)
		lines = append(append([]string(nil), lines[:i]...), other[j:]...)
		return join(), "splice"
	case 8, 9, 10: // replace one field by a boundary value
		i := pickLine(r, lines, 0)
		if i < 0 {
			return src, "field"
		}
		l := lines[i]
		a, b := 0, 0
		if lay, ok := layouts[l[0]]; ok && r.Chance(4, 5) {
			f := r.Intn(len(lay) - 1)
			a, b = lay[f], lay[f+1]
		} else {
			a = r.Intn(len(l))
			b = a + 1 + r.Intn(16)
		}
		lines = append([]string(nil), lines...)
		lines[i] = replaceCols(l, a, b, boundaryValue(r, b-a))
		return join(), "field"
	case 11: // record type
		i := pickLine(r, lines, 0)
		if i < 0 {
			return src, "rectype"
		}
		lines = append([]string(nil), lines...)
		lines[i] = replaceCols(lines[i], 0, 1, string("15678902 A"[r.Intn(10)]))
		return join(), "rectype"
	case 12: // SEC code of a batch header
		i := pickLine(r, lines, '5')
		if i < 0 {
			return src, "sec"
		}
		lines = append([]string(nil), lines...)
		lines[i] = replaceCols(lines[i], 50, 53, gen.Pick(r, secCodes))
		return join(), "sec"
	case 13: // transaction code
		i := pickLine(r, lines, '6')
		if i < 0 {
			return src, "txcode"
		}
		lines = append([]string(nil), lines...)
		lines[i] = replaceCols(lines[i], 1, 3, gen.Pick(r, txCodes))
		return join(), "txcode"
	case 14: // addenda type code
		i := pickLine(r, lines, '7')
		if i < 0 {
			return src, "addenda-type"
		}
		lines = append([]string(nil), lines...)
		lines[i] = replaceCols(lines[i], 1, 3, gen.Pick(r, addendaTypes))
		return join(), "addenda-type"
	case 15: // addenda record indicator
		i := pickLine(r, lines, '6')
		if i < 0 {
			return src, "addenda-indicator"
		}
		lines = append([]string(nil), lines...)
		lines[i] = replaceCols(lines[i], 78, 79, string("0129 A"[r.Intn(6)]))
		return join(), "addenda-indicator"
	case 16: // multi-byte character in place of one character
		i := pickLine(r, lines, 0)
		if i < 0 {
			return src, "multibyte"
		}
		lines = append([]string(nil), lines...)
		for n := 1 + r.Intn(3); n > 0; n-- {
			c := r.Intn(len(lines[i]))
			lines[i] = replaceCols(lines[i], c, c+1, gen.Pick(r, multi))
		}
		return join(), "multibyte"
	case 17: // all on one line (fixed-width file without line endings)
		return []byte(strings.Join(lines, "")), "oneline"
	case 18: // line endings
		sep := gen.Pick(r, []string{"\r\n", "\r", "\n\n", "\n \n", "\r\n\r\n"})
		return []byte(strings.Join(lines, sep)), "line-endings"
	case 19: // a longer / shorter line
		i := pickLine(r, lines, 0)
		if i < 0 {
			return src, "line-length"
		}
		lines = append([]string(nil), lines...)
		switch r.Intn(4) {
		case 0:
			lines[i] = strings.TrimRight(lines[i], " ")
		case 1:
			lines[i] += strings.Repeat(" ", 1+r.Intn(120))
		case 2:
			lines[i] += boundaryValue(r, 1+r.Intn(95))
		default:
			lines[i] = lines[i][:r.Intn(len(lines[i]))]
		}
		return join(), "line-length"
	case 20: // service class / batch number of header or control
		i := pickLine(r, lines, "58"[r.Intn(2)])
		if i < 0 {
			return src, "service-class"
		}
		lines = append([]string(nil), lines...)
		if r.Bool() {
			lines[i] = replaceCols(lines[i], 1, 4, gen.Pick(r, []string{"200", "220", "225", "280", "000", "999", "   ", "2 0"}))
		} else {
			lines[i] = replaceCols(lines[i], 87, 94, gen.Pick(r, []string{"0000000", "0000001", "9999999", "       ", "000000A", "-000001"}))
		}
		return join(), "service-class"
	case 21: // drop the controls / header
		var out []string
		drop := "189"[r.Intn(3)]
		for _, l := range lines {
			if len(l) > 0 && l[0] == drop {
				continue
			}
			out = append(out, l)
		}
		lines = out
		return join(), "drop-records"
	case 22: // repeat a whole batch / block of lines many times
		if len(lines) < 2 {
			return src, "repeat-block"
		}
		i := r.Intn(len(lines))
		j := i + 1 + r.Intn(len(lines)-i)
		var out []string
		out = append(out, lines[:j]...)
		for n := 1 + r.Intn(4); n > 0; n-- {
			out = append(out, lines[i:j]...)
		}
		out = append(out, lines[j:]...)
		lines = out
		return join(), "repeat-block"
	default: // entry name OFFSET-like / lower-case everything / digits zeroed
		i := pickLine(r, lines, 0)
		if i < 0 {
			return src, "case"
		}
		lines = append([]string(nil), lines...)
		switch r.Intn(3) {
		case 0:
			lines[i] = strings.ToLower(lines[i])
		case 1:
			lines[i] = strings.Map(func(c rune) rune {
				if c >= '0' && c <= '9' {
					return '0'
				}
				return c
			}, lines[i])
		default:
			lines[i] = strings.Map(func(c rune) rune {
				if c >= '0' && c <= '9' {
					return '9'
				}
				return c
			}, lines[i])
		}
		return join(), "case"
	}
}

// Mutate applies one to three mutations; the label names them.
func Mutate(r *gen.Rand, src []byte, pool [][]byte) ([]byte, string) {
	n := 1
	switch r.Intn(6) {
	case 0, 1:
		n = 2
	case 2:
		n = 3
	}
	out := src
	var label []string
	for ; n > 0; n-- {
		var l string
		out, l = mutateOnce(r, out, pool)
		label = append(label, l)
	}
	if len(out) > 1<<20 {
		out = out[:1<<20]
	}
	return out, strings.Join(label, "+")
}
