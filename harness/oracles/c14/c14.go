// Package c14 holds the oracle for property C14: validating, rendering and
// serialising never modify the file.
package c14

import (
	"bytes"
	"encoding/json"
	"fmt"
	"hash/fnv"
	"reflect"
	"regexp"
	"runtime"
	"sort"
	"strconv"
	"strings"
	"sync"
	"sync/atomic"
	"unicode/utf8"

	"github.com/moov-io/ach"
	"verif/harness/gen"
	. "verif/harness/oracle"
)

// ------------------------------------------------------------ ValidateOpts

var boolFlags = func() []int {
	var out []int
	t := reflect.TypeOf(ach.ValidateOpts{})
	for i := 0; i < t.NumField(); i++ {
		if t.Field(i).Type.Kind() == reflect.Bool && t.Field(i).IsExported() {
			out = append(out, i)
		}
	}
	return out
}()

type optSet struct {
	isNil bool
	mask  uint64
}

func (o optSet) build() *ach.ValidateOpts {
	if o.isNil {
		return nil
	}
	v := &ach.ValidateOpts{}
	rv := reflect.ValueOf(v).Elem()
	for bit, fi := range boolFlags {
		if o.mask&(1<<uint(bit)) != 0 {
			rv.Field(fi).SetBool(true)
		}
	}
	return v
}

func (o optSet) names() []string {
	if o.isNil {
		return []string{"<nil opts>"}
	}
	t := reflect.TypeOf(ach.ValidateOpts{})
	out := []string{}
	for bit, fi := range boolFlags {
		if o.mask&(1<<uint(bit)) != 0 {
			out = append(out, t.Field(fi).Name)
		}
	}
	return out
}

func (o optSet) key() string { return strings.Join(o.names(), ",") }

func sampleOpts(r *gen.Rand) optSet {
	n := uint(len(boolFlags))
	all := uint64(1)<<n - 1
	var o optSet
	switch r.Intn(10) {
	case 0:
		o.isNil = true
	case 1:
		o.mask = 0
	case 2:
		o.mask = all &^ 1 // everything but SkipAll
	case 3, 4:
		o.mask = 1 << uint(r.Intn(int(n)))
	case 5, 6:
		for b := uint(0); b < n; b++ {
			if r.Chance(1, 5) {
				o.mask |= 1 << b
			}
		}
	default:
		o.mask = r.Uint64() & all
		if r.Chance(3, 4) {
			o.mask &^= 1
		}
	}
	return o
}

// ------------------------------------------------------------ operations

type stringer interface{ String() string }

func str(s stringer) {
	if s == nil {
		return
	}
	if v := reflect.ValueOf(s); v.Kind() == reflect.Ptr && v.IsNil() {
		return
	}
	_ = s.String()
}

// renderKinds: String() of every record, grouped by record kind (used both as
// one operation "String" and, one kind at a time, to name the culprit).
var renderKinds = []string{"FileHeader", "BatchHeader", "EntryDetail", "Addenda", "BatchControl", "FileControl"}

func render(f *ach.File, kind string) {
	switch kind {
	case "FileHeader":
		str(&f.Header)
	case "FileControl":
		str(&f.Control)
		str(&f.ADVControl)
	case "BatchHeader":
		for _, b := range f.Batches {
			if b != nil {
				str(b.GetHeader())
			}
		}
		for i := range f.IATBatches {
			str(f.IATBatches[i].GetHeader())
		}
	case "BatchControl":
		for _, b := range f.Batches {
			if b != nil {
				str(b.GetControl())
				str(b.GetADVControl())
			}
		}
		for i := range f.IATBatches {
			str(f.IATBatches[i].GetControl())
		}
	case "EntryDetail":
		for _, b := range f.Batches {
			if b == nil {
				continue
			}
			for _, e := range b.GetEntries() {
				str(e)
			}
			for _, e := range b.GetADVEntries() {
				str(e)
			}
		}
		for i := range f.IATBatches {
			for _, e := range f.IATBatches[i].GetEntries() {
				str(e)
			}
		}
	case "Addenda":
		for _, b := range f.Batches {
			if b == nil {
				continue
			}
			for _, e := range b.GetEntries() {
				if e == nil {
					continue
				}
				str(e.Addenda02)
				for _, a := range e.Addenda05 {
					str(a)
				}
				str(e.Addenda98)
				str(e.Addenda98Refused)
				str(e.Addenda99)
				str(e.Addenda99Dishonored)
				str(e.Addenda99Contested)
			}
			for _, e := range b.GetADVEntries() {
				if e != nil {
					str(e.Addenda99)
				}
			}
		}
		for i := range f.IATBatches {
			for _, e := range f.IATBatches[i].GetEntries() {
				if e == nil {
					continue
				}
				str(e.Addenda10)
				str(e.Addenda11)
				str(e.Addenda12)
				str(e.Addenda13)
				str(e.Addenda14)
				str(e.Addenda15)
				str(e.Addenda16)
				for _, a := range e.Addenda17 {
					str(a)
				}
				for _, a := range e.Addenda18 {
					str(a)
				}
				str(e.Addenda98)
				str(e.Addenda99)
			}
		}
	}
}

// op names: "Validate", "ValidateWith", "Batch.Validate", "String", "MarshalJSON", "Write", "WriteBypass"
// and, for culprit analysis only, "String:<kind>".
var seqOps = []string{"Validate", "ValidateWith", "Batch.Validate", "String", "MarshalJSON", "Write", "WriteBypass"}

// apply runs one operation under recover; it reports whether the operation panicked.
func apply(f *ach.File, op string, vw optSet) (panicked bool) {
	defer func() {
		if r := recover(); r != nil {
			panicked = true
		}
	}()
	switch {
	case op == "Validate":
		_ = f.Validate()
	case op == "ValidateWith":
		_ = f.ValidateWith(vw.build())
	case op == "Batch.Validate":
		for _, b := range f.Batches {
			if b != nil {
				_ = b.Validate()
			}
		}
		for i := range f.IATBatches {
			_ = f.IATBatches[i].Validate()
		}
	case op == "String":
		for _, k := range renderKinds {
			render(f, k)
		}
	case strings.HasPrefix(op, "String:"):
		render(f, strings.TrimPrefix(op, "String:"))
	case op == "MarshalJSON":
		_, _ = json.Marshal(f)
	case op == "Write", op == "WriteBypass":
		var buf bytes.Buffer
		w := ach.NewWriter(&buf)
		w.BypassValidation = op == "WriteBypass"
		_ = w.Write(f)
		_ = w.Flush()
	}
	return false
}

// ------------------------------------------------------------ snapshots

func observeJSON(f *ach.File) (out string) {
	defer func() {
		if r := recover(); r != nil {
			out = "json.Marshal panicked"
		}
	}()
	b, err := json.Marshal(f)
	if err != nil {
		return "json.Marshal error: " + err.Error()
	}
	return string(b)
}

// observeText renders the file with a validation-bypassing Writer.  volatile
// reports that the header's creation date or time is empty, in which case the
// first line shows the wall clock (D10) and is left out of the comparison.
func observeText(f *ach.File) (out string, volatile bool) {
	defer func() {
		if r := recover(); r != nil {
			out = "Writer.Write panicked"
		}
	}()
	volatile = f.Header.FileCreationDate == "" || f.Header.FileCreationTime == ""
	var buf bytes.Buffer
	w := ach.NewWriter(&buf)
	w.BypassValidation = true
	if err := w.Write(f); err != nil {
		return "Writer.Write error: " + err.Error(), volatile
	}
	return buf.String(), volatile
}

type snap struct {
	js, text string
	volatile bool
}

func observe(f *ach.File, jsonFirst bool) snap {
	var s snap
	if jsonFirst {
		s.js = observeJSON(f)
		s.text, s.volatile = observeText(f)
	} else {
		s.text, s.volatile = observeText(f)
		s.js = observeJSON(f)
	}
	return s
}

func dropFirstLine(s string) string {
	if i := strings.IndexByte(s, '\n'); i >= 0 {
		return s[i+1:]
	}
	return ""
}

func textEqual(a, b snap) bool {
	if a.volatile || b.volatile {
		return dropFirstLine(a.text) == dropFirstLine(b.text)
	}
	return a.text == b.text
}

// jsonDiffPath names the first differing path (array indices collapsed).
func jsonDiffPath(a, b string) string {
	var va, vb any
	da := json.NewDecoder(strings.NewReader(a))
	da.UseNumber()
	db := json.NewDecoder(strings.NewReader(b))
	db.UseNumber()
	if da.Decode(&va) != nil || db.Decode(&vb) != nil {
		return "(not-json)"
	}
	return diffValue(va, vb, "")
}

func diffValue(a, b any, path string) string {
	switch x := a.(type) {
	case map[string]any:
		y, ok := b.(map[string]any)
		if !ok {
			return path
		}
		keys := map[string]bool{}
		for k := range x {
			keys[k] = true
		}
		for k := range y {
			keys[k] = true
		}
		var ks []string
		for k := range keys {
			ks = append(ks, k)
		}
		// the derived views "ReturnEntries" / "NotificationOfChange" repeat batches; look at them last
		derived := func(k string) bool { return k == "ReturnEntries" || k == "NotificationOfChange" }
		sort.Slice(ks, func(i, j int) bool {
			if derived(ks[i]) != derived(ks[j]) {
				return derived(ks[j])
			}
			return ks[i] < ks[j]
		})
		for _, k := range ks {
			p := k
			if path != "" {
				p = path + "." + k
			}
			xv, xok := x[k]
			yv, yok := y[k]
			if xok != yok {
				return p
			}
			if d := diffValue(xv, yv, p); d != "" {
				return d
			}
		}
		return ""
	case []any:
		y, ok := b.([]any)
		if !ok || len(x) != len(y) {
			return path + "[]"
		}
		for i := range x {
			if d := diffValue(x[i], y[i], path+"[]"); d != "" {
				return d
			}
		}
		return ""
	default:
		if !reflect.DeepEqual(a, b) {
			if path == "" {
				return "(root)"
			}
			return path
		}
		return ""
	}
}

// textDiffWhere names the record type and column of the first differing line.
func textDiffWhere(a, b snap) (where, la, lb string) {
	ta, tb := a.text, b.text
	if a.volatile || b.volatile {
		ta, tb = dropFirstLine(ta), dropFirstLine(tb)
	}
	al, bl := strings.Split(ta, "\n"), strings.Split(tb, "\n")
	for i := 0; i < len(al) || i < len(bl); i++ {
		var x, y string
		if i < len(al) {
			x = al[i]
		}
		if i < len(bl) {
			y = bl[i]
		}
		if x == y {
			continue
		}
		rec := "?"
		for _, l := range []string{x, y} {
			if l != "" {
				rec = string([]rune(l)[:1])
				if rec == "7" && utf8.RuneCountInString(l) >= 3 {
					rec = string([]rune(l)[:3])
				}
				break
			}
		}
		if x == "" || y == "" {
			return "record=" + rec + "/line-added-or-removed", x, y
		}
		xr, yr := []rune(x), []rune(y)
		col := 0
		for col < len(xr) && col < len(yr) && xr[col] == yr[col] {
			col++
		}
		return fmt.Sprintf("record=%s/col=%d", rec, col+1), x, y
	}
	return "none", "", ""
}

// ------------------------------------------------------------ cases

type fcase struct {
	source, class, key string
	mk                 func() *ach.File // deterministic: every call builds an identical file
	input              func() map[string]any
}

type finding struct {
	sig, what          string
	input              any
	observed, required string
}

type caseResult struct {
	key, class string
	nontrivial bool
	fails      []finding
}

func hash(b []byte) string {
	h := fnv.New64a()
	h.Write(b)
	return strconv.FormatUint(h.Sum64(), 36)
}

func clipQ(b []byte) string {
	if len(b) > 30000 {
		return strconv.Quote(string(b[:30000])) + fmt.Sprintf("…(+%d bytes)", len(b)-30000)
	}
	return strconv.Quote(string(b))
}

func parallel(n int, fn func(i int) caseResult) []caseResult {
	out := make([]caseResult, n)
	workers := runtime.GOMAXPROCS(0)
	if workers > 16 {
		workers = 16
	}
	var next atomic.Int64
	var wg sync.WaitGroup
	for w := 0; w < workers; w++ {
		wg.Add(1)
		go func() {
			defer wg.Done()
			for {
				i := int(next.Add(1)) - 1
				if i >= n {
					return
				}
				out[i] = fn(i)
			}
		}()
	}
	wg.Wait()
	return out
}

// culprit finds the first single operation (String of one record kind first,
// then the others) that alone, on a fresh copy, changes the observation at the
// same place.
func culprit(c fcase, vw optSet, which, where string) string {
	var prims []string
	for _, k := range renderKinds {
		prims = append(prims, "String:"+k)
	}
	prims = append(prims, "Validate", "ValidateWith", "Batch.Validate", "MarshalJSON", "Write", "WriteBypass")
	ref := c.mk()
	if ref == nil {
		return "unknown"
	}
	var refJS string
	var refText snap
	if which == "json" {
		refJS = observeJSON(ref)
	} else {
		refText.text, refText.volatile = observeText(ref)
	}
	for _, p := range prims {
		g := c.mk()
		if g == nil {
			return "unknown"
		}
		apply(g, p, vw)
		if which == "json" {
			if js := observeJSON(g); js != refJS && jsonDiffPath(refJS, js) == where {
				return p
			}
		} else {
			var s snap
			s.text, s.volatile = observeText(g)
			if !textEqual(refText, s) {
				if w, _, _ := textDiffWhere(refText, s); w == where {
					return p
				}
			}
		}
	}
	return "a-sequence-only"
}

func evalCase(c fcase, r *gen.Rand) caseResult {
	res := caseResult{key: c.key, class: c.class, nontrivial: true}
	f := c.mk()
	if f == nil {
		res.class = c.source + "/unbuildable"
		res.nontrivial = false
		return res
	}
	n := 1 + r.Intn(5)
	seq := make([]string, n)
	for i := range seq {
		seq[i] = gen.Pick(r, seqOps)
	}
	vw := sampleOpts(r)
	jsonFirst := r.Bool()
	res.key += "|" + strings.Join(seq, ">") + "|" + vw.key()

	a := observe(f, jsonFirst)
	panicked := false
	for _, op := range seq {
		if apply(f, op, vw) {
			panicked = true
		}
	}
	b := observe(f, jsonFirst)
	if panicked {
		res.class += "+op-panicked"
	}
	if a.volatile || b.volatile {
		res.class += "+clock-in-header(line 1 not compared)"
	}
	input := func() map[string]any {
		m := c.input()
		m["sequence"] = seq
		m["validate_with_opts"] = vw.names()
		m["snapshot_order"] = map[bool]string{true: "json.Marshal then bypass-write", false: "bypass-write then json.Marshal"}[jsonFirst]
		return m
	}
	if a.js != b.js {
		path := jsonDiffPath(a.js, b.js)
		by := culprit(c, vw, "json", path)
		res.fails = append(res.fails, finding{
			sig:      "C14/json-changed/" + path + "/by=" + by,
			what:     "json.Marshal(file) differs before and after a sequence of read-only operations; first differing path " + path + "; the single operation that reproduces it on a fresh copy: " + by,
			input:    input(),
			observed: "after:  " + excerpt(b.js, a.js),
			required: "before: " + excerpt(a.js, b.js),
		})
	}
	if !textEqual(a, b) {
		where, la, lb := textDiffWhere(a, b)
		by := culprit(c, vw, "text", where)
		res.fails = append(res.fails, finding{
			sig:      "C14/text-changed/" + where + "/by=" + by,
			what:     "the NACHA rendering (Writer with BypassValidation) differs before and after a sequence of read-only operations; " + where + "; the single operation that reproduces it on a fresh copy: " + by,
			input:    input(),
			observed: "after:  " + lb,
			required: "before: " + la,
		})
	}
	return res
}

// excerpt shows s around the first position where it differs from t.
func excerpt(s, t string) string {
	i := 0
	for i < len(s) && i < len(t) && s[i] == t[i] {
		i++
	}
	lo := i - 120
	if lo < 0 {
		lo = 0
	}
	hi := i + 200
	if hi > len(s) {
		hi = len(s)
	}
	return fmt.Sprintf("…%s… (first difference at byte %d)", s[lo:hi], i)
}

// ------------------------------------------------------------ case sources

type seed struct {
	name string
	data []byte
}

func genOpts(i int, sec string) gen.Opts {
	o := gen.Opts{SECs: []string{sec}, MaxBatches: 2, MaxEntries: 3, IATCorrections: true}
	switch i % 4 {
	case 1:
		o.Categories = gen.AllCategories()
	case 2:
		o.Offset = true
	case 3:
		o.Categories = []string{ach.CategoryForward, ach.CategoryReturn, ach.CategoryNOC}
		o.NonASCII = true
		o.FullWidth = true
	}
	return o
}

func parsedCase(s seed, label string, text []byte, opts optSet) fcase {
	return fcase{
		source: "parsed",
		key:    "parsed|" + hash(text) + "|" + opts.key(),
		mk: func() *ach.File {
			var out *ach.File
			func() {
				defer func() { recover() }()
				rd := ach.NewReader(bytes.NewReader(text))
				rd.SetValidation(opts.build())
				f, _ := rd.Read()
				out = &f
			}()
			return out
		},
		input: func() map[string]any {
			return map[string]any{"kind": "file returned by Reader.Read (with or without an error)", "source": s.name, "mutation": label, "text_go_quoted": clipQ(text), "reader_validate_opts": opts.names(),
				"replay": "r := ach.NewReader(bytes.NewReader(text)); r.SetValidation(opts); f, _ := r.Read(); A := (json.Marshal(&f), bypass-write(&f)); run the sequence on &f; B likewise; compare"}
		},
	}
}

// stringFields collects every settable exported string field reachable from v.
func stringFields(v reflect.Value, path string, out *[]namedField, depth int) {
	if depth > 16 {
		return
	}
	switch v.Kind() {
	case reflect.Ptr, reflect.Interface:
		if !v.IsNil() {
			stringFields(v.Elem(), path, out, depth+1)
		}
	case reflect.Struct:
		t := v.Type()
		for i := 0; i < v.NumField(); i++ {
			sf := t.Field(i)
			if !sf.IsExported() {
				continue
			}
			name := sf.Name
			if sf.Anonymous {
				name = ""
			}
			p := path
			if name != "" {
				if p != "" {
					p += "."
				}
				p += name
			}
			stringFields(v.Field(i), p, out, depth+1)
		}
	case reflect.Slice:
		for i := 0; i < v.Len(); i++ {
			stringFields(v.Index(i), fmt.Sprintf("%s[%d]", path, i), out, depth+1)
		}
	case reflect.String:
		if v.CanSet() && !strings.HasSuffix(path, "ID") && !strings.HasSuffix(path, ".Category") {
			*out = append(*out, namedField{path, v})
		}
	}
}

type namedField struct {
	path string
	v    reflect.Value
}

var indexRE = strings.NewReplacer("0", "", "1", "", "2", "", "3", "", "4", "", "5", "", "6", "", "7", "", "8", "", "9", "")

func collapse(path string) string { return indexRE.Replace(path) }

var indexOnlyRE = regexp.MustCompile(`\[\d+\]`)

// tweak modifies fields of an API-built valid file in ways a caller of the
// public API can (blank padding, case, emptiness, over-long values) and
// returns a description.
func tweak(r *gen.Rand, f *ach.File) []string {
	var notes []string
	// the file header routing fields with leading blanks, as 10-character values (D16)
	if r.Chance(1, 2) {
		pad := gen.Pick(r, []string{" ", "  ", "0"})
		switch r.Intn(5) {
		case 0:
			f.Header.ImmediateDestination = pad + f.Header.ImmediateDestination
		case 1:
			f.Header.ImmediateOrigin = pad + f.Header.ImmediateOrigin
		case 2:
			f.Header.ImmediateDestination = pad + f.Header.ImmediateDestination
			f.Header.ImmediateOrigin = f.Header.ImmediateOrigin + " "
		case 3:
			f.Header.ImmediateDestination = pad // blanks (or "0") only
		default:
			f.Header.ImmediateOrigin = pad
		}
		notes = append(notes, fmt.Sprintf("Header.ImmediateDestination=%q", f.Header.ImmediateDestination), fmt.Sprintf("Header.ImmediateOrigin=%q", f.Header.ImmediateOrigin))
	}
	// entries whose Category was not (re)derived after their addenda were attached: a caller that builds entries by hand
	// or decodes a batch from JSON has them
	if r.Chance(1, 3) {
		cat := gen.Pick(r, []string{"", ach.CategoryForward, ach.CategoryReturn, ach.CategoryNOC})
		for _, b := range f.Batches {
			for _, e := range b.GetEntries() {
				e.Category = cat
			}
		}
		for i := range f.IATBatches {
			for _, e := range f.IATBatches[i].GetEntries() {
				e.Category = cat
			}
		}
		notes = append(notes, fmt.Sprintf("every entry's Category=%q", cat))
	}
	var fields []namedField
	stringFields(reflect.ValueOf(f), "", &fields, 0)
	for n := r.Intn(3); n > 0 && len(fields) > 0; n-- {
		nf := gen.Pick(r, fields)
		s := nf.v.String()
		var v string
		switch r.Intn(7) {
		case 0:
			v = " " + s
		case 1:
			v = s + " "
		case 2:
			v = "  " + s + "  "
		case 3:
			v = strings.ToLower(s)
		case 4:
			v = ""
		case 5:
			v = s + s + "X"
		default:
			v = s + " "
		}
		nf.v.SetString(v)
		notes = append(notes, fmt.Sprintf("%s=%q", nf.path, v))
	}
	// validation options a caller may set
	switch r.Intn(4) {
	case 0:
		f.SetValidation(&ach.ValidateOpts{BypassOriginValidation: true, BypassDestinationValidation: true})
		notes = append(notes, "SetValidation(BypassOriginValidation+BypassDestinationValidation)")
	case 1:
		f.SetValidation(&ach.ValidateOpts{BypassDestinationValidation: true})
		notes = append(notes, "SetValidation(BypassDestinationValidation)")
	case 2:
		f.SetValidation(&ach.ValidateOpts{PreserveSpaces: true, AllowSpecialCharacters: true})
		notes = append(notes, "SetValidation(PreserveSpaces+AllowSpecialCharacters)")
	}
	return notes
}

func init() {
	Register("C14", &Oracle{
		Rule: "three sources of files: (parsed) what Reader.Read returns - with or without an error - for every .ach fixture under /repo/test and generator texts, unmutated and after 1-3 structure-aware byte/line/field mutations, under sampled ValidateOpts subsets of all bool flags; (generator) valid files of every SEC code incl. ADV and IAT (returns, NOCs, offsets, non-ASCII); (api) generator files whose exported string fields were then modified through the public API (leading/trailing blanks - in particular the file header routing fields -, lower case, empty, over-long, NBSP) with or without Bypass*/PreserveSpaces options set. " +
			"For each: A=(json.Marshal, bypass-validation Writer output) in random order; a random sequence (length 1..5) over {Validate, ValidateWith(random opts), every Batch.Validate, String of every record, json.Marshal, Write, Write bypassing}; B likewise; A must equal B byte for byte (line 1 of the text is left out when the header's creation date/time is empty, since it then shows the clock). " +
			"distinct = distinct (input hash / generated shape, reader options, sequence, ValidateWith options); all cases non-trivial (at least one operation ran between the snapshots)",
		Run: run,
	})
}

func run(t *T) {
	// ---- seeds for parsing
	var seeds []seed
	corpus := gen.CorpusTexts()
	var paths []string
	for p := range corpus {
		paths = append(paths, p)
	}
	sort.Strings(paths)
	for _, p := range paths {
		seeds = append(seeds, seed{strings.TrimPrefix(p, gen.RepoRoot+"/"), corpus[p]})
	}
	secs := gen.AllSECs()
	gr := t.R.Fork(1)
	for i := 0; i < 3*len(secs); i++ {
		f, err := gen.File(gr.Fork(uint64(i)), genOpts(i/len(secs), secs[i%len(secs)]))
		if err != nil {
			continue
		}
		b, err := gen.Write(f, i%2 == 1)
		if err != nil {
			t.Fail("C14/generator", "valid generator file cannot be written", FileInput(f), err.Error(), "nil")
			continue
		}
		seeds = append(seeds, seed{"generator: " + gen.Describe(f), b})
	}
	pool := make([][]byte, len(seeds))
	for i, s := range seeds {
		pool[i] = s.data
	}

	var cases []fcase
	var rands []*gen.Rand
	add := func(c fcase, r *gen.Rand) {
		cases = append(cases, c)
		rands = append(rands, r)
	}

	// (1) parsed: every seed unmutated (nil opts, and one sampled set), then mutants
	pr := t.R.Fork(2)
	for i, s := range seeds {
		r := pr.Fork(uint64(i))
		c := parsedCase(s, "unmutated", s.data, optSet{isNil: true})
		c.class = "parsed/unmutated"
		add(c, r.Fork(1))
		c = parsedCase(s, "unmutated", s.data, sampleOpts(r))
		c.class = "parsed/unmutated+opts"
		add(c, r.Fork(2))
	}
	nMut := t.Budget(12000)
	for i := 0; i < nMut; i++ {
		r := pr.Fork(uint64(100000 + i))
		s := gen.Pick(r, seeds)
		text, label := Mutate(r, s.data, pool)
		c := parsedCase(s, label, text, sampleOpts(r))
		c.class = "parsed/mutated:" + strings.SplitN(label, "+", 2)[0]
		add(c, r.Fork(3))
	}

	// (2) generator files, (3) API-built variations
	nGen := t.Budget(3000)
	gr2 := t.R.Fork(3)
	for i := 0; i < nGen; i++ {
		r := gr2.Fork(uint64(i))
		sec := secs[i%len(secs)]
		o := genOpts(i/len(secs), sec)
		state := *r // the generator is replayed from this state by every mk()
		probe, err := gen.File(&state, o)
		if err != nil {
			continue
		}
		desc := gen.Describe(probe)
		shape := desc[strings.Index(desc, " ")+1:]
		saved := *r
		mkGen := func() *ach.File {
			st := saved
			f, err := gen.File(&st, o)
			if err != nil {
				return nil
			}
			return f
		}
		add(fcase{
			source: "generator", class: "generator/" + sec, key: "generator|" + shape,
			mk: mkGen,
			input: func() map[string]any {
				m := FileInput(mkGen())
				m["kind"] = "valid generator file built through the public constructors"
				return m
			},
		}, r.Fork(4))

		tr := *r.Fork(5)
		var notes []string
		mkAPI := func() *ach.File {
			f := mkGen()
			if f == nil {
				return nil
			}
			st := tr
			notes = tweak(&st, f)
			return f
		}
		mkAPI()
		var fieldsOnly []string
		for _, n := range notes {
			fieldsOnly = append(fieldsOnly, collapse(strings.SplitN(n, "=", 2)[0]))
		}
		add(fcase{
			source: "api", class: "api/" + sec, key: "api|" + shape + "|" + strings.Join(fieldsOnly, ","),
			mk: mkAPI,
			input: func() map[string]any {
				m := FileInput(mkGen())
				m["kind"] = "valid generator file, then modified through exported fields / SetValidation"
				m["modifications_after_building"] = notes
				return m
			},
		}, r.Fork(6))
	}

	// (4) systematic: one generator file per SEC code (every category), every distinct exported string field of it x a
	// fixed set of values a caller of the API may store there (padded, prefixed by a letter or a zero, lower case,
	// doubled, empty): getters that "normalise" the stored value while rendering show up whatever the random
	// tweaks of (3) happen to pick
	sr := t.R.Fork(4)
	transforms := []struct {
		name string
		f    func(string) string
	}{
		{"lead-blank", func(x string) string { return " " + x }}, {"trail-blank", func(x string) string { return x + " " }},
		{"prefix-R", func(x string) string { return "R" + x }}, {"prefix-0", func(x string) string { return "0" + x }},
		{"lower", strings.ToLower}, {"doubled", func(x string) string { return x + x + "X" }}, {"empty", func(string) string { return "" }},
	}
	for si, sec := range secs {
		o := gen.Opts{SECs: []string{sec}, Categories: gen.AllCategories(), MinBatches: 2, MaxBatches: 3, MaxEntries: 3, MaxAddenda: 2}
		saved := *sr.Fork(uint64(si))
		mkGen := func() *ach.File {
			st := saved
			f, err := gen.File(&st, o)
			if err != nil {
				return nil
			}
			return f
		}
		probe := mkGen()
		if probe == nil {
			continue
		}
		var fields []namedField
		stringFields(reflect.ValueOf(probe), "", &fields, 0)
		seenPath := map[string]bool{}
		for fi, nf := range fields {
			cp := indexOnlyRE.ReplaceAllString(nf.path, "[]")
			if seenPath[cp] {
				continue
			}
			seenPath[cp] = true
			for ti, tf := range transforms {
				fi, tf, path := fi, tf, nf.path
				var note string
				mk := func() *ach.File {
					f := mkGen()
					if f == nil {
						return nil
					}
					var fs []namedField
					stringFields(reflect.ValueOf(f), "", &fs, 0)
					if fi >= len(fs) || fs[fi].path != path {
						return nil
					}
					v := tf.f(fs[fi].v.String())
					fs[fi].v.SetString(v)
					note = fmt.Sprintf("%s=%q", path, v)
					return f
				}
				add(fcase{
					source: "api", class: "api-sweep/" + sec + "/" + tf.name, key: "api-sweep|" + sec + "|" + cp + "|" + tf.name,
					mk: mk,
					input: func() map[string]any {
						m := FileInput(mkGen())
						m["kind"] = "valid generator file, then one exported string field modified through the API"
						mk()
						m["modifications_after_building"] = []string{note}
						return m
					},
				}, sr.Fork(uint64(1000000+si*100000+fi*10+ti)))
			}
		}
	}

	rs := parallel(len(cases), func(i int) caseResult { return evalCase(cases[i], rands[i]) })
	for _, c := range rs {
		t.Case(c.key, c.class, c.nontrivial)
		for _, f := range c.fails {
			t.Fail(f.sig, f.what, f.input, f.observed, f.required)
		}
	}
}
