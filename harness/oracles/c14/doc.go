// Package c14 holds the oracle for property C14.
package c14
