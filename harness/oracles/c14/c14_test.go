package c14

import (
	"encoding/json"
	"os"
	"strconv"
	"testing"

	"verif/harness/oracle"
)

// TestOracle runs this package's oracle once and prints its result
// (VERIF_SEED, VERIF_TIER honoured).  It fails when the oracle reports failures.
func TestOracle(t *testing.T) {
	seed, _ := strconv.ParseUint(os.Getenv("VERIF_SEED"), 10, 64)
	tier := os.Getenv("VERIF_TIER")
	if tier == "" {
		tier = "quick"
	}
	res := oracle.Run("C14", seed, tier, "")
	bs, _ := json.MarshalIndent(res, "", " ")
	t.Log(string(bs))
	if len(res.Failures) > 0 || res.Error != "" {
		t.Fail()
	}
}
