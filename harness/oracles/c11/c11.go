// Package c11 holds the oracle for property C11: SegmentFile partitions a
// file into credits and debits without loss.
package c11

import (
	"bytes"
	"errors"
	"fmt"
	"sort"
	"strings"
	"time"

	"github.com/moov-io/ach"
	"github.com/moov-io/ach/server"
	"github.com/moov-io/base/log"
	"verif/harness/gen"
	. "verif/harness/oracle"
)

// ---- snapshots ------------------------------------------------------------

// entrySnap is one entry with its addenda as rendered by the library's own
// String methods in the order the Writer uses, taken before/after SegmentFile.
type entrySnap struct {
	kind   string // "std" | "IAT" | "ADV"
	sec    string
	code   int
	amount int
	masked string   // records joined by "\n"; trace / sequence numbers blanked (see maskLine)
	ident  []string // identification of the batch the entry is in (see identNames)
}

type fileSnap struct {
	origin, dest, originName, destName string
	entries                            []entrySnap
	totalDebit, totalCredit            int
	// per standard (non-IAT) batch, in file order: how SegmentFile will route it
	std []stdBatch
}

type stdBatch struct {
	sec            string
	scc, number    int
	credits, debit int // number of credit / debit entries
}

// identNames lists the header fields that make up the "batch identification"
// of the property: who originated the batch, through which ODFI, as what.
func identNames(kind string) []string {
	if kind == "IAT" {
		return []string{"OriginatorIdentification", "StandardEntryClassCode", "CompanyEntryDescription", "ODFIIdentification", "IATIndicator"}
	}
	return []string{"CompanyName", "CompanyIdentification", "StandardEntryClassCode", "CompanyEntryDescription", "ODFIIdentification"}
}

func identOf(bh *ach.BatchHeader) []string {
	return []string{bh.CompanyName, bh.CompanyIdentification, bh.StandardEntryClassCode, bh.CompanyEntryDescription, bh.ODFIIdentification}
}

// For an IAT batch the Company Identification of the batch control record is
// not derived from the header (IATBatch.build keeps whatever the control
// held), so it is an identification field of its own.
func identOfIAT(b *ach.IATBatch) []string {
	bh, ci := b.GetHeader(), ""
	if bc := b.GetControl(); bc != nil {
		ci = bc.CompanyIdentification
	}
	return []string{bh.OriginatorIdentification, bh.StandardEntryClassCode, bh.CompanyEntryDescription, bh.ODFIIdentification, bh.IATIndicator, ci}
}

// maskLine blanks, for ADV entries only, the 4 digit sequence number that Batch.build assigns by position.
func maskLine(kind, line string) string {
	rs := []rune(line)
	if len(rs) != 94 {
		return line // never expected; compared verbatim
	}
	cut := 0
	if kind != "ADV" {
		// standard and IAT entries keep their trace numbers (and the sequence numbers derived from them) through
		// SegmentFile on every input the generator produces: compared verbatim, as the property's "multiset of
		// entries (with their addenda)" reads
		return line
	}
	switch {
	case rs[0] == '6' && kind == "ADV":
		cut = 4
	case rs[0] == '6':
		cut = 15
	case rs[0] == '7' && kind == "ADV":
		cut = 0
	case rs[0] == '7':
		switch string(rs[1:3]) {
		case "02", "98", "99":
			cut = 15
		default:
			cut = 7
		}
	}
	for i := len(rs) - cut; i < len(rs); i++ {
		rs[i] = '#'
	}
	return string(rs)
}

func join(kind string, lines []string) string {
	out := make([]string, 0, len(lines))
	for _, l := range lines {
		if l != "" {
			out = append(out, maskLine(kind, l))
		}
	}
	return strings.Join(out, "\n")
}

func stdLines(e *ach.EntryDetail) []string {
	ls := []string{e.String()}
	if e.Addenda02 != nil {
		ls = append(ls, e.Addenda02.String())
	}
	for _, a := range e.Addenda05 {
		if a != nil {
			ls = append(ls, a.String())
		}
	}
	if e.Addenda98 != nil {
		ls = append(ls, e.Addenda98.String())
	}
	if e.Addenda98Refused != nil {
		ls = append(ls, e.Addenda98Refused.String())
	}
	if e.Addenda99 != nil {
		ls = append(ls, e.Addenda99.String())
	}
	if e.Addenda99Dishonored != nil {
		ls = append(ls, e.Addenda99Dishonored.String())
	}
	if e.Addenda99Contested != nil {
		ls = append(ls, e.Addenda99Contested.String())
	}
	return ls
}

func iatLines(e *ach.IATEntryDetail) []string {
	ls := []string{e.String()}
	if e.Addenda10 != nil {
		ls = append(ls, e.Addenda10.String())
	}
	if e.Addenda11 != nil {
		ls = append(ls, e.Addenda11.String())
	}
	if e.Addenda12 != nil {
		ls = append(ls, e.Addenda12.String())
	}
	if e.Addenda13 != nil {
		ls = append(ls, e.Addenda13.String())
	}
	if e.Addenda14 != nil {
		ls = append(ls, e.Addenda14.String())
	}
	if e.Addenda15 != nil {
		ls = append(ls, e.Addenda15.String())
	}
	if e.Addenda16 != nil {
		ls = append(ls, e.Addenda16.String())
	}
	for _, a := range e.Addenda17 {
		if a != nil {
			ls = append(ls, a.String())
		}
	}
	for _, a := range e.Addenda18 {
		if a != nil {
			ls = append(ls, a.String())
		}
	}
	if e.Addenda98 != nil {
		ls = append(ls, e.Addenda98.String())
	}
	if e.Addenda99 != nil {
		ls = append(ls, e.Addenda99.String())
	}
	return ls
}

// isCredit classifies a transaction code independently of the library's
// switch statements: standard codes x1..x4 are credits, x5..x9 debits; the ADV
// codes 81,83,85,87 are credits, 82,84,86,88 debits.
func isCredit(kind string, code int) bool {
	if kind == "ADV" {
		return code%2 == 1
	}
	d := code % 10
	return d >= 1 && d <= 4
}

func snapshot(f *ach.File) fileSnap {
	s := fileSnap{origin: f.Header.ImmediateOrigin, dest: f.Header.ImmediateDestination,
		originName: f.Header.ImmediateOriginName, destName: f.Header.ImmediateDestinationName}
	adv := false
	for _, b := range f.Batches {
		bh := b.GetHeader()
		id := identOf(bh)
		sb := stdBatch{sec: bh.StandardEntryClassCode, scc: bh.ServiceClassCode, number: bh.BatchNumber}
		for _, e := range b.GetEntries() {
			s.entries = append(s.entries, entrySnap{"std", bh.StandardEntryClassCode, e.TransactionCode, e.Amount, join("std", stdLines(e)), id})
			if isCredit("std", e.TransactionCode) {
				sb.credits++
			} else {
				sb.debit++
			}
		}
		for _, e := range b.GetADVEntries() {
			adv = true
			ls := []string{e.String()}
			if e.Addenda99 != nil {
				ls = append(ls, e.Addenda99.String())
			}
			s.entries = append(s.entries, entrySnap{"ADV", bh.StandardEntryClassCode, e.TransactionCode, e.Amount, join("ADV", ls), id})
			if isCredit("ADV", e.TransactionCode) {
				sb.credits++
			} else {
				sb.debit++
			}
		}
		s.std = append(s.std, sb)
	}
	for i := range f.IATBatches {
		b := &f.IATBatches[i]
		id := identOfIAT(b)
		for _, e := range b.GetEntries() {
			s.entries = append(s.entries, entrySnap{"IAT", ach.IAT, e.TransactionCode, e.Amount, join("IAT", iatLines(e)), id})
		}
	}
	if adv {
		s.totalDebit, s.totalCredit = f.ADVControl.TotalDebitEntryDollarAmountInFile, f.ADVControl.TotalCreditEntryDollarAmountInFile
	} else {
		s.totalDebit, s.totalCredit = f.Control.TotalDebitEntryDollarAmountInFile, f.Control.TotalCreditEntryDollarAmountInFile
	}
	return s
}

// ---- error classes --------------------------------------------------------

func sanitize(s string) string {
	var b strings.Builder
	prev := byte('-')
	for _, r := range s {
		c := byte('-')
		switch {
		case r >= '0' && r <= '9':
			c = 'N'
		case r >= 'a' && r <= 'z', r >= 'A' && r <= 'Z':
			c = byte(r)
		}
		if (c == '-' || c == 'N') && prev == c {
			continue
		}
		b.WriteByte(c)
		prev = c
	}
	out := strings.Trim(b.String(), "-")
	if len(out) > 56 {
		out = out[:56]
	}
	return out
}

// errClass reduces a library error to a stable class: the field names of the
// wrapping BatchError / FieldError and the Go type (or, for plain errors, the
// digit-free message) of the innermost error.
func errClass(err error) string {
	var parts []string
	for e := err; e != nil; {
		switch v := e.(type) {
		case *ach.BatchError:
			parts = append(parts, v.FieldName)
			e = v.Err
			continue
		case *ach.FieldError:
			parts = append(parts, v.FieldName)
			e = v.Err
			continue
		}
		tn := strings.TrimPrefix(fmt.Sprintf("%T", e), "*")
		if strings.HasPrefix(tn, "ach.") {
			parts = append(parts, strings.TrimPrefix(tn, "ach."))
		} else {
			parts = append(parts, sanitize(e.Error()))
		}
		break
	}
	return strings.Join(parts, "/")
}

// ---- the renumbering rule behind D8 ----------------------------------------

// predictedNumbers replays how SegmentFile numbers the standard batches of one
// output: a single-direction input batch is reused and keeps its number (if it
// is > 1), a batch split off a mixed (or ADV) batch starts at 0 and is given
// its position by File.Create.  It returns the resulting sequence.
func predictedNumbers(std []stdBatch, credit bool) []int {
	var out []int
	for _, b := range std {
		n, present := 0, false
		switch {
		case b.sec == ach.ADV && b.scc == ach.AutomatedAccountingAdvices, b.scc == ach.MixedDebitsAndCredits:
			present = (credit && b.credits > 0) || (!credit && b.debit > 0)
		case b.scc == ach.CreditsOnly:
			present, n = credit, b.number
		case b.scc == ach.DebitsOnly:
			present, n = !credit, b.number
		}
		if !present {
			continue
		}
		if n <= 1 {
			n = len(out) + 1
		}
		out = append(out, n)
	}
	return out
}

func ascending(ns []int) bool {
	for i := 1; i < len(ns); i++ {
		if ns[i] <= ns[i-1] {
			return false
		}
	}
	return true
}

// ---- input shaping ---------------------------------------------------------

func setNumber(b ach.Batcher, n int) {
	b.GetHeader().BatchNumber = n
	if b.GetHeader().StandardEntryClassCode == ach.ADV {
		b.GetADVControl().BatchNumber = n
	} else {
		b.GetControl().BatchNumber = n
	}
}

// renumber gives the batches of a created file pre-set batch numbers.
// mode 0: as File.Create left them (1..n); 1: ascending with gaps; 2: batches
// shuffled, then 1..n; 3: shuffled, ascending with gaps.
func renumber(r *gen.Rand, f *ach.File, mode int) {
	if mode == 0 {
		return
	}
	if mode >= 2 {
		for i := len(f.Batches) - 1; i > 0; i-- {
			j := r.Intn(i + 1)
			f.Batches[i], f.Batches[j] = f.Batches[j], f.Batches[i]
		}
		for i := len(f.IATBatches) - 1; i > 0; i-- {
			j := r.Intn(i + 1)
			f.IATBatches[i], f.IATBatches[j] = f.IATBatches[j], f.IATBatches[i]
		}
	}
	n := 0
	next := func() int {
		if mode == 1 || mode == 3 {
			n += r.Range(1, 4)
			if n < 2 && r.Bool() {
				n = 2
			}
		} else {
			n++
		}
		return n
	}
	for _, b := range f.Batches {
		setNumber(b, next())
	}
	for i := range f.IATBatches {
		k := next()
		f.IATBatches[i].GetHeader().BatchNumber = k
		f.IATBatches[i].GetControl().BatchNumber = k
	}
}

// ---- the oracle ------------------------------------------------------------

type segResult struct {
	c, d  *ach.File
	err   error
	panic string
}

// segmentVia: 0 the library's File.SegmentFile; 1 the server's Service.SegmentFile (the code behind the HTTP segment
// endpoints: it tabulates the file, then segments it); 2 Service.SegmentFileID on the stored file.
var segmentVia int

func segment(f *ach.File) (segResult, bool) {
	via := segmentVia
	ch := make(chan segResult, 1)
	go func() {
		var res segResult
		defer func() {
			if p := recover(); p != nil {
				res.panic = fmt.Sprint(p)
			}
			ch <- res
		}()
		switch via {
		case 1, 2:
			repo := server.NewRepositoryInMemory(0, log.NewNopLogger())
			svc := server.NewService(repo)
			if via == 2 {
				if f.ID == "" {
					f.ID = "c11-stored"
				}
				if err := repo.StoreFile(f); err != nil {
					res.err = fmt.Errorf("storing the file: %w", err)
					return
				}
				res.c, res.d, res.err = svc.SegmentFileID(f.ID, nil)
			} else {
				res.c, res.d, res.err = svc.SegmentFile(f, nil)
			}
		default:
			res.c, res.d, res.err = f.SegmentFile(nil)
		}
	}()
	select {
	case res := <-ch:
		return res, true
	case <-time.After(20 * time.Second):
		return segResult{}, false
	}
}

func init() {
	Register("C11", &Oracle{
		Rule: "valid generator files (every SEC incl. IAT, ADV files; categories Forward/Return/NOC/RefusedNOC/Dishonored/Contested; service classes 200/220/225 in any order; offsets; " +
			"pre-set trace numbers; batch numbers as created, with gaps, shuffled) -> SegmentFile(nil); entries compared as rendered records with trace/sequence numbers masked " +
			"(the property is silent on them); distinct = distinct sequence of (SEC, service class, batch number, transaction codes) per file; non-trivial = at least one entry is routed to an output",
		Run: run,
	})
}

func run(t *T) {
	n := t.Budget(6000)
	secSets := [][]string{
		nil, nil, nil, // everything
		{ach.IAT},
		{ach.ADV},
		{ach.PPD, ach.CCD, ach.CTX, ach.WEB, ach.IAT},
		{ach.COR},
		{ach.MTE, ach.POS, ach.SHR, ach.IAT},
	}
	for i := 0; i < n; i++ {
		r := t.R.Fork(uint64(i))
		o := gen.Opts{
			IATCorrections: true,
			SECs:           secSets[i%len(secSets)],
			Categories:     gen.AllCategories(),
			MinBatches:     1,
			MaxBatches:     1 + r.Intn(7),
			MaxEntries:     1 + r.Intn(6),
			PresetTraces:   r.Bool(),
			Offset:         r.Chance(1, 3),
			FullWidth:      r.Chance(1, 6),
			NonASCII:       r.Chance(1, 8),
		}
		if r.Chance(1, 4) {
			o.Categories = nil // forward only
		}
		if r.Chance(1, 5) {
			o.ServiceClasses = gen.Pick(r, [][]int{{200}, {220, 225}, {200, 220}, {200, 225}})
		}
		f, err := gen.File(r, o)
		if err != nil {
			t.Fail("C11/generator", "generator failed", fmt.Sprintf("%+v", o), err.Error(), "a valid file")
			continue
		}
		mode := r.Intn(4)
		renumber(r, f, mode)
		if mode != 0 {
			if err := f.Create(); err != nil {
				t.Fail("C11/generator", "File.Create after renumbering failed", FileInput(f), err.Error(), "nil")
				continue
			}
		}
		if r.Chance(1, 5) {
			nineDigitODFI(f)
		}
		if err := f.Validate(); err != nil {
			t.Fail("C11/generator", "input file is not valid", FileInput(f), err.Error(), "a valid file")
			continue
		}
		segmentVia = 0
		switch i % 12 {
		case 5, 9:
			segmentVia = 1
		case 11:
			segmentVia = 2
		}
		checkFile(t, f, mode)
		segmentVia = 0
	}
}

// nineDigitODFI writes the ODFI of every batch header and control with its check digit (nine characters), as a file
// built through the API or JSON may carry it; rendering and validation use the first eight.  Kept only if the file
// still validates.
func nineDigitODFI(f *ach.File) {
	type saved struct{ h, c *string }
	var all []saved
	for _, b := range f.Batches {
		if h, c := b.GetHeader(), b.GetControl(); h != nil && c != nil && b.GetHeader().StandardEntryClassCode != ach.ADV {
			all = append(all, saved{&h.ODFIIdentification, &c.ODFIIdentification})
		}
	}
	for _, b := range f.IATBatches {
		if h, c := b.GetHeader(), b.GetControl(); h != nil && c != nil {
			all = append(all, saved{&h.ODFIIdentification, &c.ODFIIdentification})
		}
	}
	old := make([][2]string, len(all))
	for i, x := range all {
		old[i] = [2]string{*x.h, *x.c}
		if len(*x.h) == 8 && *x.h == *x.c {
			d := ach.CalculateCheckDigit(*x.h)
			if d >= 0 && d <= 9 {
				*x.h += fmt.Sprint(d)
				*x.c = *x.h
			}
		}
	}
	if f.Validate() != nil {
		for i, x := range all {
			*x.h, *x.c = old[i][0], old[i][1]
		}
	}
}

func caseKey(f *ach.File) (key, class string) {
	var b strings.Builder
	kinds := map[string]bool{}
	mixed := false
	for _, x := range f.Batches {
		h := x.GetHeader()
		fmt.Fprintf(&b, "|%s/%d#%d:", h.StandardEntryClassCode, h.ServiceClassCode, h.BatchNumber)
		for _, e := range x.GetEntries() {
			fmt.Fprintf(&b, "%d,", e.TransactionCode)
		}
		for _, e := range x.GetADVEntries() {
			fmt.Fprintf(&b, "%d,", e.TransactionCode)
		}
		if h.StandardEntryClassCode == ach.ADV {
			kinds["ADV"] = true
			mixed = true
		} else {
			kinds["std"] = true
		}
		mixed = mixed || h.ServiceClassCode == ach.MixedDebitsAndCredits
	}
	for _, x := range f.IATBatches {
		h := x.GetHeader()
		fmt.Fprintf(&b, "|IAT/%d#%d:", h.ServiceClassCode, h.BatchNumber)
		for _, e := range x.GetEntries() {
			fmt.Fprintf(&b, "%d,", e.TransactionCode)
		}
		kinds["IAT"] = true
		mixed = mixed || h.ServiceClassCode == ach.MixedDebitsAndCredits
	}
	var ks []string
	for k := range kinds {
		ks = append(ks, k)
	}
	sort.Strings(ks)
	class = strings.Join(ks, "+")
	if mixed {
		class += "/with-mixed-batch"
	} else {
		class += "/single-direction-only"
	}
	return b.String(), class
}

func checkFile(t *T, f *ach.File, mode int) {
	key, class := caseKey(f)
	class += fmt.Sprintf("/numbering=%d", mode)
	if segmentVia != 0 {
		class += fmt.Sprintf("/via-service=%d", segmentVia)
		key += fmt.Sprintf(" via=%d", segmentVia)
	}
	in := snapshot(f)
	input := FileInput(f)

	res, done := segment(f)
	outcome := "/segmented"
	if !done || res.panic != "" || res.err != nil {
		outcome = "/not-segmented"
	}
	t.Case(key, class+outcome, len(in.entries) > 0)

	if !done {
		t.Fail("C11/hang", "SegmentFile did not return within 20s", input, "no result", "credit and debit file")
		return
	}
	if res.panic != "" {
		t.Fail("C11/panic/"+sanitize(res.panic), "SegmentFile panicked", input, res.panic, "credit and debit file")
		return
	}
	if res.err != nil {
		sig := "C11/segment-error/" + errClass(res.err)
		var asc ach.ErrFileBatchNumberAscending
		if errors.As(res.err, &asc) {
			pc, pd := predictedNumbers(in.std, true), predictedNumbers(in.std, false)
			if !ascending(pc) || !ascending(pd) {
				// D8: a reused single-direction batch keeps its number while batches
				// split off mixed ones are renumbered by their position in the output.
				sig = "C11/segment-error/batch-number-not-ascending/reused-number-vs-renumbered-split"
				input["predicted_credit_file_batch_numbers"] = fmt.Sprint(pc)
				input["predicted_debit_file_batch_numbers"] = fmt.Sprint(pd)
			} else {
				sig = "C11/segment-error/batch-number-not-ascending/unexplained"
			}
		}
		t.Fail(sig, "SegmentFile returned an error on a valid file", input, res.err.Error(), "nil error")
		return
	}
	if res.c == nil || res.d == nil {
		t.Fail("C11/nil-output", "SegmentFile returned a nil file without an error", input, fmt.Sprintf("credit=%v debit=%v", res.c != nil, res.d != nil), "two files")
		return
	}

	outC, outD := snapshot(res.c), snapshot(res.d)

	// (1) directions
	for _, e := range outC.entries {
		if !isCredit(e.kind, e.code) {
			t.Fail(fmt.Sprintf("C11/debit-in-credit-file/%s/code=%d", e.kind, e.code), "credit file contains a debit entry", input, e.masked, "credit entries only")
		}
	}
	for _, e := range outD.entries {
		if isCredit(e.kind, e.code) {
			t.Fail(fmt.Sprintf("C11/credit-in-debit-file/%s/code=%d", e.kind, e.code), "debit file contains a credit entry", input, e.masked, "debit entries only")
		}
	}

	// (2) multiset of entries, (3) batch identification travelling with each entry
	all := append(append([]entrySnap{}, outC.entries...), outD.entries...)
	same := compareEntries(t, input, in.entries, all)

	// (4) totals (a mere consequence when entries were lost or added)
	if same && (outC.totalCredit+outD.totalCredit != in.totalCredit || outC.totalDebit+outD.totalDebit != in.totalDebit) {
		t.Fail("C11/totals-do-not-add-up", "file control totals of the outputs do not add up to the input's", input,
			fmt.Sprintf("credit file: debit=%d credit=%d; debit file: debit=%d credit=%d", outC.totalDebit, outC.totalCredit, outD.totalDebit, outD.totalCredit),
			fmt.Sprintf("debit=%d credit=%d", in.totalDebit, in.totalCredit))
	}
	sum := func(es []entrySnap) (d, c int) {
		for _, e := range es {
			if isCredit(e.kind, e.code) {
				c += e.amount
			} else {
				d += e.amount
			}
		}
		return
	}
	for _, o := range []struct {
		name string
		s    fileSnap
	}{{"credit", outC}, {"debit", outD}} {
		d, c := sum(o.s.entries)
		if d != o.s.totalDebit || c != o.s.totalCredit {
			t.Fail("C11/totals-vs-entries/"+o.name+"-file", "file control totals of an output differ from the sum of its entries", input,
				fmt.Sprintf("control debit=%d credit=%d", o.s.totalDebit, o.s.totalCredit), fmt.Sprintf("debit=%d credit=%d", d, c))
		}
	}

	// (5) validity and file identification of each non-empty output
	for _, o := range []struct {
		name string
		f    *ach.File
		s    fileSnap
	}{{"credit", res.c, outC}, {"debit", res.d, outD}} {
		if len(o.f.Batches)+len(o.f.IATBatches) == 0 {
			if len(o.s.entries) != 0 {
				t.Fail("C11/entries-without-batches", "output without batches has entries", input, o.name, "none")
			}
			continue
		}
		if err := o.f.Validate(); err != nil {
			t.Fail("C11/output-invalid/"+o.name+"-file/"+errClass(err), "output file does not pass Validate", input, err.Error(), "nil")
		}
		checkBatches(t, input, o.name, o.f)
		for _, c := range []struct{ name, got, want string }{
			{"ImmediateOrigin", o.s.origin, in.origin}, {"ImmediateDestination", o.s.dest, in.dest},
			{"ImmediateOriginName", o.s.originName, in.originName}, {"ImmediateDestinationName", o.s.destName, in.destName},
		} {
			if c.got != c.want {
				t.Fail("C11/file-header/"+c.name, "output does not carry the input's origin/destination", input, fmt.Sprintf("%s file: %q", o.name, c.got), fmt.Sprintf("%q", c.want))
			}
		}
	}
}

// checkBatches validates every batch of an output on its own.  File.Validate
// skips IAT batches and the batches of ADV files (D6), so an output that
// passes File.Validate can still be a file the library's own Reader rejects;
// the Reader's verdict on the written output is attached as evidence.
func checkBatches(t *T, input map[string]any, name string, f *ach.File) {
	report := func(sec string, err error) {
		var buf bytes.Buffer
		w := ach.NewWriter(&buf)
		evidence := ""
		if werr := w.Write(f); werr != nil {
			evidence = "; Writer: " + werr.Error()
		} else if _, rerr := ach.NewReader(bytes.NewReader(buf.Bytes())).Read(); rerr != nil {
			evidence = "; the written " + name + " file is rejected by ach.NewReader: " + rerr.Error()
		} else {
			evidence = "; (the written file is accepted by ach.NewReader)"
		}
		kind := "std"
		if sec == ach.IAT || sec == ach.ADV {
			kind = sec
		}
		t.Fail("C11/output-batch-invalid/"+kind+"/"+errClass(err), "a batch of the "+name+" file does not pass its own Validate", input, err.Error()+evidence, "nil")
	}
	for _, b := range f.Batches {
		if err := b.Validate(); err != nil {
			report(b.GetHeader().StandardEntryClassCode, err)
		}
	}
	for i := range f.IATBatches {
		if err := f.IATBatches[i].Validate(); err != nil {
			report(ach.IAT, err)
		}
	}
}

func count(es []entrySnap, key func(entrySnap) string) map[string]int {
	m := map[string]int{}
	for _, e := range es {
		m[key(e)]++
	}
	return m
}

func compareEntries(t *T, input map[string]any, in, out []entrySnap) bool {
	byRec := func(e entrySnap) string { return e.kind + "\x00" + e.masked }
	a, b := count(in, byRec), count(out, byRec)
	equal := true
	secOf := map[string]string{}
	for _, e := range append(append([]entrySnap{}, in...), out...) {
		secOf[byRec(e)] = e.sec
	}
	var keys []string
	for k := range secOf {
		keys = append(keys, k)
	}
	sort.Strings(keys)
	lost, extra := map[string][]string{}, map[string][]string{}
	for _, k := range keys {
		switch {
		case a[k] > b[k]:
			lost[secOf[k]] = append(lost[secOf[k]], k[strings.Index(k, "\x00")+1:])
		case a[k] < b[k]:
			extra[secOf[k]] = append(extra[secOf[k]], k[strings.Index(k, "\x00")+1:])
		}
	}
	var secs []string
	for s := range lost {
		secs = append(secs, s)
	}
	for s := range extra {
		if _, ok := lost[s]; !ok {
			secs = append(secs, s)
		}
	}
	sort.Strings(secs)
	for _, s := range secs {
		equal = false
		what := "altered"
		switch {
		case len(extra[s]) == 0:
			what = "lost"
		case len(lost[s]) == 0:
			what = "added"
		}
		t.Fail("C11/entry-multiset/"+s+"/"+what, "the entries of credit and debit file together are not the input's entries", input,
			fmt.Sprintf("missing from the outputs:\n%s\nonly in the outputs:\n%s", strings.Join(lost[s], "\n--\n"), strings.Join(extra[s], "\n--\n")),
			"the same multiset of entries with their addenda (trace and sequence numbers masked with #)")
	}
	if !equal {
		return false
	}
	// batch identification: every entry must sit in a batch carrying the
	// identification of the batch it came from.
	for _, kind := range []string{"std", "ADV", "IAT"} {
		for fi, fname := range identNames(kind) {
			withField := func(e entrySnap) string {
				if e.kind != kind {
					return ""
				}
				return e.ident[fi] + "\x00" + e.masked
			}
			a, b := count(in, withField), count(out, withField)
			var ks []string
			for k := range a {
				ks = append(ks, k)
			}
			sort.Strings(ks)
			for _, k := range ks {
				if n := a[k]; k != "" && b[k] != n {
					got := "?"
					rec := k[strings.Index(k, "\x00")+1:]
					for _, e := range out {
						if e.kind == kind && e.masked == rec && a[withField(e)] < b[withField(e)] {
							got = e.ident[fi]
						}
					}
					t.Fail("C11/batch-identification/"+kind+"/"+fname, "an entry ended up in a batch that does not carry the identification of its input batch", input,
						fmt.Sprintf("%s=%q for entry\n%s", fname, got, rec), fmt.Sprintf("%s=%q", fname, k[:strings.Index(k, "\x00")]))
					break
				}
			}
		}
	}
	return true
}
