// Package c11 holds the oracle for property C11.
package c11
