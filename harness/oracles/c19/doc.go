// Package c19 holds the oracle for property C19.
package c19
