package c19

import (
	"bytes"
	"fmt"
	"runtime"
	"sync"
	"sync/atomic"
	"time"

	"github.com/moov-io/ach"
	"verif/harness/gen"
	. "verif/harness/oracle"
)

// soak: a handful of small texts that between them contain every record type (entries of every category: Addenda02,
// 05, 98, refused 98, 99, dishonored, contested; IAT with all its addenda; ADV) are parsed and written back in tight
// loops by more goroutines than there are processors (GOMAXPROCS lowered to 2 for the phase), so that the scheduler's
// time-slice preemption lands inside record parsers and formatters: a function that lets go of a pooled buffer while
// it still writes to it gives another goroutine on the same processor that very buffer.  Every result must equal the
// one computed sequentially beforehand.
func soak(t *T) {
	dur := 600 * time.Millisecond
	if t.Budget(1) > 1 {
		dur = 6 * time.Second
	}
	type item struct {
		text []byte
		want string
		what string
	}
	var items []item
	sets := []gen.Opts{
		{SECs: []string{ach.COR}, Categories: []string{ach.CategoryNOC, gen.CategoryRefusedNOC}, MaxBatches: 1, MaxEntries: 3},
		{SECs: []string{ach.PPD, ach.CCD}, Categories: []string{ach.CategoryReturn, ach.CategoryDishonoredReturn, ach.CategoryDishonoredReturnContested}, MaxBatches: 1, MaxEntries: 3},
		{SECs: []string{ach.CTX, ach.POS, ach.PPD}, MaxBatches: 2, MaxEntries: 2, MaxAddenda: 3},
		{SECs: []string{ach.IAT}, Categories: gen.AllCategories(), MaxBatches: 1, MaxEntries: 2},
		{SECs: []string{ach.ADV}, MaxBatches: 1, MaxEntries: 2},
	}
	one := func(text []byte) string {
		f, err := ach.NewReader(bytes.NewReader(text)).Read()
		if err != nil {
			return "error: " + err.Error()
		}
		var buf bytes.Buffer
		if err := ach.NewWriter(&buf).Write(&f); err != nil {
			return "write error: " + err.Error()
		}
		return buf.String()
	}
	for si, o := range sets {
		for k := 0; k < 3; k++ {
			f, err := gen.File(t.R.Fork(uint64(9100+10*si+k)), o)
			if err != nil {
				continue
			}
			text, err := gen.Write(f, false)
			if err != nil {
				continue
			}
			items = append(items, item{text, one(text), fmt.Sprintf("set %d file %d", si, k)})
		}
	}
	if len(items) == 0 {
		t.Fail("C19/generator", "no soak inputs", nil, "none", "some")
		return
	}
	prev := runtime.GOMAXPROCS(2)
	defer runtime.GOMAXPROCS(prev)
	var wg sync.WaitGroup
	var iters int64
	var mu sync.Mutex
	reported := map[string]bool{}
	stop := time.Now().Add(dur)
	for g := 0; g < 8; g++ {
		wg.Add(1)
		go func(g int) {
			defer wg.Done()
			defer func() {
				if p := recover(); p != nil {
					mu.Lock()
					if !reported["panic"] {
						reported["panic"] = true
						t.Fail("C19/soak/panic", "parsing and writing small files from 8 goroutines panicked", map[string]any{"goroutine": g}, fmt.Sprint(p), "the sequential result")
					}
					mu.Unlock()
				}
			}()
			for i := g; time.Now().Before(stop); i++ {
				it := items[i%len(items)]
				got := one(it.text)
				atomic.AddInt64(&iters, 1)
				if got != it.want {
					mu.Lock()
					if !reported[it.what] && len(reported) < 3 {
						reported[it.what] = true
						t.Fail("C19/soak/result-differs", "a small file parsed and written back by one of 8 goroutines (2 processors) gives another text than sequentially",
							map[string]any{"input": string(it.text), "which": it.what}, firstDiff(got, it.want), "byte-identical to the sequential result")
					}
					mu.Unlock()
				}
			}
		}(g)
	}
	wg.Wait()
	t.Case(fmt.Sprintf("soak %d inputs", len(items)), fmt.Sprintf("soak: %d parse+write round trips by 8 goroutines on 2 processors", atomic.LoadInt64(&iters)), true)
}
