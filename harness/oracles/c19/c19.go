// Package c19 holds the oracle for property C19: work on independent files
// from many goroutines, and HTTP requests to different file IDs, give the same
// bytes as the same work done sequentially.
package c19

import (
	"bytes"
	"encoding/json"
	"fmt"
	"sort"
	"strings"
	"sync"
	"sync/atomic"
	"time"

	"github.com/moov-io/ach"
	"verif/harness/gen"
	. "verif/harness/oracle"
)

func init() {
	Register("C19", &Oracle{
		Rule: "(A) per case 2..64 independent jobs, each with its own seed: the job builds its own input with the generator (every SEC, all categories, sometimes non-ASCII; valid, or made invalid by a seeded mutation of the NACHA text / the JSON / the in-memory totals; or a corpus fixture) " +
			"and runs one of {parse text, parse JSON, validate, write LF+CRLF, json.Marshal, FlattenBatches, SegmentFile, MergeFiles of 2..5 own files, build+Create}; the result is the error text plus the NACHA text and JSON of what came out " +
			"(keys \"id\" removed; file creation date/time masked for Flatten/Segment output, which stamps the current time). The jobs are run twice sequentially (a job whose two sequential results differ is counted as nondeterministic and not compared), " +
			"then twice by 2..32 goroutines pulling from a shared queue, inputs rebuilt inside the goroutines; every concurrent result must equal the sequential one byte for byte. " +
			"(B) per case 2..32 clients, each owning one file ID and a script of 3..10 requests to it (create text|JSON valid|invalid, get, contents LF|CRLF, validate GET|POST, build, add/list/get/delete batch, flatten (only while no batch was added/deleted and no mutated body was sent: Flatten breaks ties between equal batch numbers by map order), segment by ID, delete; never the list-all nor the balance endpoint), " +
			"run sequentially on one fresh in-process handler and concurrently (one goroutine per client) on another; status and canonical body (\"id\"-like keys removed, Flatten/Segment creation stamps masked) of every request must agree. " +
			"(C) soak: 15 small generator files that between them hold every record type are parsed and written back in tight loops by 8 goroutines on 2 processors (GOMAXPROCS lowered for the phase) for 0.6 s (quick) / 6 s (thorough), each result compared with the sequential one. " +
			"distinct = (job kinds and seeds) / (scripts); non-trivial = at least two jobs or clients really ran in parallel. The oracle shares nothing between goroutines but the work queue and per-index result slots.",
		Run: func(t *T) {
			library(t)
			httpPart(t)
			soak(t) // last: it lowers GOMAXPROCS for its duration
		},
	})
}

// ---------- canonical results ----------

// stripJSON removes generated identifiers (and, if stamps, the creation
// date/time that Flatten and Segment take from the clock) and re-encodes with sorted keys.
func stripJSON(raw []byte, stamps bool) string {
	var v any
	dec := json.NewDecoder(bytes.NewReader(raw))
	dec.UseNumber()
	if err := dec.Decode(&v); err != nil {
		return "not-json:" + string(raw)
	}
	var walk func(x any) any
	walk = func(x any) any {
		switch m := x.(type) {
		case map[string]any:
			for k, val := range m {
				switch {
				case k == "id" || k == "ID" || k == "creditFileID" || k == "debitFileID":
					delete(m, k)
				case stamps && (k == "fileCreationDate" || k == "fileCreationTime"):
					m[k] = "masked"
				default:
					m[k] = walk(val)
				}
			}
			return m
		case []any:
			for i := range m {
				m[i] = walk(m[i])
			}
			return m
		}
		return x
	}
	out, _ := json.Marshal(walk(v))
	return string(out)
}

// fileResult renders a file: canonical JSON and, when it can be written, its NACHA text.
func fileResult(f *ach.File, stamps bool) string {
	if f == nil {
		return "<nil file>"
	}
	js, err := json.Marshal(f)
	res := ""
	if err != nil {
		res = "json-error:" + err.Error()
	} else {
		res = stripJSON(js, stamps)
	}
	text, err := gen.Write(f, false)
	if err != nil {
		return res + "\nwrite-error:" + err.Error()
	}
	if stamps {
		text = maskHeaderStamp(text)
	}
	return res + "\n" + string(text)
}

// maskHeaderStamp blanks columns 24-33 (creation date and time) of the file header record.
func maskHeaderStamp(text []byte) []byte {
	out := append([]byte(nil), text...)
	if len(out) >= 33 && out[0] == '1' {
		for i := 23; i < 33; i++ {
			out[i] = '#'
		}
	}
	return out
}

func errText(err error) string {
	if err == nil {
		return "ok"
	}
	return "error:" + err.Error()
}

// ---------- (A) library jobs ----------

const (
	jParseText = iota
	jParseJSON
	jValidate
	jWrite
	jMarshal
	jFlatten
	jSegment
	jMerge
	jCreate
	jCorpus
	jTooLong
	jCustomCodes
	nJobKinds
)

var jobName = [nJobKinds]string{"parse-text", "parse-json", "validate", "write", "marshal", "flatten", "segment", "merge", "create", "parse-corpus", "parse-too-long", "custom-return-codes"}

var (
	corpusOnce  sync.Once
	corpusTexts [][]byte
)

func corpus() [][]byte {
	corpusOnce.Do(func() {
		m := gen.CorpusTexts()
		var keys []string
		for k := range m {
			keys = append(keys, k)
		}
		sort.Strings(keys)
		for _, k := range keys {
			if len(m[k]) < 200_000 {
				corpusTexts = append(corpusTexts, m[k])
			}
		}
	})
	return corpusTexts
}

func genOpts(r *gen.Rand) gen.Opts {
	o := gen.Opts{MaxBatches: 3, MaxEntries: 4}
	switch r.Intn(4) {
	case 0:
		o.Categories = gen.AllCategories()
	case 1:
		o.Categories = []string{ach.CategoryForward, ach.CategoryReturn}
	}
	o.NonASCII = r.Chance(1, 4)
	o.FullWidth = r.Chance(1, 4)
	o.PresetTraces = r.Chance(1, 3)
	return o
}

func mutateText(r *gen.Rand, text []byte) []byte {
	lines := strings.Split(strings.TrimRight(string(text), "\n"), "\n")
	switch r.Intn(5) {
	case 0: // change one character
		li := r.Intn(len(lines))
		rs := []rune(lines[li])
		if len(rs) > 0 {
			rs[r.Intn(len(rs))] = gen.Pick(r, []rune("0123456789ABCxyz *~"))
			lines[li] = string(rs)
		}
	case 1: // drop a line
		li := r.Intn(len(lines))
		lines = append(lines[:li], lines[li+1:]...)
	case 2: // duplicate a line
		li := r.Intn(len(lines))
		lines = append(lines[:li+1], lines[li:]...)
	case 3: // truncate
		lines = lines[:r.Range(1, len(lines))]
		last := []rune(lines[len(lines)-1])
		lines[len(lines)-1] = string(last[:r.Intn(len(last)+1)])
	case 4: // swap two lines
		a, b := r.Intn(len(lines)), r.Intn(len(lines))
		lines[a], lines[b] = lines[b], lines[a]
	}
	return []byte(strings.Join(lines, "\n") + "\n")
}

func mutateJSON(r *gen.Rand, js []byte) []byte {
	out := append([]byte(nil), js...)
	switch r.Intn(4) {
	case 0: // truncate
		return out[:r.Intn(len(out))]
	case 1, 2: // change some digits
		var pos []int
		for i, c := range out {
			if c >= '0' && c <= '9' {
				pos = append(pos, i)
			}
		}
		for k := 0; k < r.Range(1, 3) && len(pos) > 0; k++ {
			out[pos[r.Intn(len(pos))]] = byte('0' + r.Intn(10))
		}
	case 3: // change a letter inside some string
		var pos []int
		for i, c := range out {
			if c >= 'A' && c <= 'Z' {
				pos = append(pos, i)
			}
		}
		if len(pos) > 0 {
			out[pos[r.Intn(len(pos))]] = gen.Pick(r, []byte("QZ9 ~"))
		}
	}
	return out
}

// corrupt changes totals or fields of an in-memory file so that validation has something to find.
func corrupt(r *gen.Rand, f *ach.File) {
	switch r.Intn(5) {
	case 0:
		f.Control.EntryHash++
	case 1:
		f.Control.TotalDebitEntryDollarAmountInFile += 100
	case 2:
		f.Control.BatchCount++
	case 3:
		if len(f.Batches) > 0 {
			if es := f.Batches[r.Intn(len(f.Batches))].GetEntries(); len(es) > 0 {
				es[r.Intn(len(es))].Amount++
			}
		}
	case 4:
		f.Header.ImmediateDestination = "12345678"
	}
}

// runJob builds the job's input from its seed and runs it.  Everything it
// touches is created here, so jobs are independent of each other.
func runJob(kind int, seed uint64) (res string) {
	defer func() {
		if p := recover(); p != nil {
			res = fmt.Sprintf("panic: %v", p)
		}
	}()
	r := gen.NewRand(seed)
	if kind == jTooLong {
		// a text longer than the reader is told to accept: Read stops with ErrFileTooLong (an error path that hands its
		// line buffer back early would leave the pool in a state the other jobs then see)
		f, err := gen.File(r, genOpts(r))
		if err != nil {
			return "generator: " + err.Error()
		}
		text, err := gen.Write(f, false)
		if err != nil {
			return "write: " + err.Error()
		}
		rd := ach.NewReader(bytes.NewReader(text))
		rd.SetMaxLines(1 + r.Intn(3))
		g, err := rd.Read()
		js, _ := json.Marshal(&g)
		return errText(err) + "\n" + stripJSON(js, false)
	}
	if kind == jCustomCodes {
		// return files whose return code is not in the Nacha table: read under CustomReturnCodes by some jobs, under the
		// default rules by others.  What one job is told to admit must not change what another job admits.
		f, err := gen.File(r, gen.Opts{SECs: []string{ach.PPD, ach.CCD, ach.WEB}, Categories: []string{ach.CategoryReturn}, MinBatches: 1, MaxBatches: 2, MaxEntries: 3})
		if err != nil {
			return "generator: " + err.Error()
		}
		code := gen.Pick(r, []string{"R93", "R94", "R57", "R99"})
		for _, b := range f.Batches {
			for _, e := range b.GetEntries() {
				if e.Addenda99 != nil {
					e.Addenda99.ReturnCode = code
				}
			}
		}
		var buf bytes.Buffer
		w := ach.NewWriter(&buf)
		w.BypassValidation = true
		if err := w.Write(f); err != nil {
			return "write: " + err.Error()
		}
		rd := ach.NewReader(bytes.NewReader(buf.Bytes()))
		how := "default"
		if r.Bool() {
			how = "custom"
			rd.SetValidation(&ach.ValidateOpts{CustomReturnCodes: true})
		}
		g, err := rd.Read()
		desc := ""
		for _, b := range g.Batches {
			for _, e := range b.GetEntries() {
				if e.Addenda99 != nil {
					if rc := e.Addenda99.ReturnCodeField(); rc != nil {
						desc += rc.Reason + "|"
					} else {
						desc += "<no description>|"
					}
				}
			}
		}
		js, _ := json.Marshal(&g)
		return how + " " + code + " " + errText(err) + "\n" + desc + "\n" + stripJSON(js, false) + "\n" + errText(f.Validate())
	}
	if kind == jCorpus {
		cs := corpus()
		if len(cs) == 0 {
			return "no corpus"
		}
		text := cs[r.Intn(len(cs))]
		f, err := ach.NewReader(bytes.NewReader(text)).Read()
		if err != nil {
			js, _ := json.Marshal(&f)
			return errText(err) + "\n" + stripJSON(js, false)
		}
		return "ok\n" + fileResult(&f, false)
	}
	o := genOpts(r)
	if kind == jFlatten || kind == jMerge {
		o.HeaderPool = r.Range(1, 3)
		o.SECs = []string{ach.PPD, ach.CCD, ach.WEB, ach.CTX, ach.TEL, ach.IAT}
	}
	if kind == jMerge {
		o.SameRoute = true
		o.CollidingTraces = r.Bool()
	}
	f, err := gen.File(r.Fork(1), o)
	if err != nil {
		return "generator:" + err.Error()
	}
	invalid := r.Chance(1, 3)
	if r.Chance(1, 3) && (kind == jWrite || kind == jMarshal || kind == jFlatten || kind == jSegment) {
		// values longer than their columns, as the API and JSON admit: rendering truncates them (a path of its own in
		// the converters)
		over := strings.Repeat("Xy", 20)
		for _, b := range f.Batches {
			if h := b.GetHeader(); h != nil {
				h.CompanyName += over
				h.CompanyDiscretionaryData += over
			}
			for _, e := range b.GetEntries() {
				e.IndividualName += over
				e.IdentificationNumber += over
			}
		}
		f.Header.ImmediateDestinationName += over
		f.Header.ImmediateOriginName += over
	}
	switch kind {
	case jCreate:
		return fileResult(f, false)
	case jParseText:
		text, err := gen.Write(f, r.Bool())
		if err != nil {
			return "write:" + err.Error()
		}
		if invalid {
			text = mutateText(r, text)
		}
		g, err := ach.NewReader(bytes.NewReader(text)).Read()
		if err != nil {
			js, _ := json.Marshal(&g)
			return errText(err) + "\n" + stripJSON(js, false)
		}
		return "ok\n" + fileResult(&g, false)
	case jParseJSON:
		js, err := json.Marshal(f)
		if err != nil {
			return "marshal:" + err.Error()
		}
		if invalid {
			js = mutateJSON(r, js)
		}
		g, err := ach.FileFromJSON(js)
		if err != nil {
			out, _ := json.Marshal(g)
			return errText(err) + "\n" + stripJSON(out, false)
		}
		return "ok\n" + fileResult(g, false)
	case jValidate:
		if invalid {
			corrupt(r, f)
		}
		a := errText(f.Validate())
		b := errText(f.ValidateWith(&ach.ValidateOpts{AllowInvalidAmounts: true, CustomTraceNumbers: true, UnequalAddendaCounts: true}))
		c := errText(f.ValidateWith(&ach.ValidateOpts{SkipAll: true}))
		return a + "\n" + b + "\n" + c
	case jWrite:
		if invalid {
			corrupt(r, f)
		}
		lf, err1 := gen.Write(f, false)
		crlf, err2 := gen.Write(f, true)
		return errText(err1) + "\n" + string(lf) + errText(err2) + "\n" + string(crlf)
	case jMarshal:
		if invalid {
			corrupt(r, f)
		}
		js, err := json.Marshal(f)
		return errText(err) + "\n" + string(js)
	case jFlatten:
		g, err := f.FlattenBatches()
		return errText(err) + "\n" + fileResult(g, true)
	case jSegment:
		if invalid {
			corrupt(r, f)
		}
		c, d, err := f.SegmentFile(nil)
		return errText(err) + "\ncredit:" + fileResult(c, true) + "\ndebit:" + fileResult(d, true)
	case jMerge:
		files := []*ach.File{f}
		for k := 0; k < r.Range(1, 4); k++ {
			g, err := gen.File(r.Fork(uint64(10+k)), o)
			if err != nil {
				return "generator:" + err.Error()
			}
			files = append(files, g)
		}
		if invalid {
			corrupt(r, files[r.Intn(len(files))])
		}
		out, err := ach.MergeFiles(files)
		var sb strings.Builder
		sb.WriteString(errText(err))
		for _, m := range out {
			sb.WriteString("\nmerged:" + fileResult(m, false))
		}
		return sb.String()
	}
	return "unknown job"
}

type jobSpec struct {
	kind int
	seed uint64
}

// runAll runs the jobs with w workers (w == 1: in order on the calling goroutine).
// It returns the results by job index and the largest number of jobs seen in flight.
func runAll(jobs []jobSpec, w int) ([]string, int, bool) {
	res := make([]string, len(jobs))
	if w <= 1 {
		for i, j := range jobs {
			res[i] = runJob(j.kind, j.seed)
		}
		return res, 1, true
	}
	var next, inflight, peak int64 = -1, 0, 0
	var wg sync.WaitGroup
	start := make(chan struct{})
	for k := 0; k < w; k++ {
		wg.Add(1)
		go func() {
			defer wg.Done()
			<-start
			for {
				i := int(atomic.AddInt64(&next, 1))
				if i >= len(jobs) {
					return
				}
				n := atomic.AddInt64(&inflight, 1)
				for {
					p := atomic.LoadInt64(&peak)
					if n <= p || atomic.CompareAndSwapInt64(&peak, p, n) {
						break
					}
				}
				res[i] = runJob(jobs[i].kind, jobs[i].seed)
				atomic.AddInt64(&inflight, -1)
			}
		}()
	}
	close(start)
	done := make(chan struct{})
	go func() { wg.Wait(); close(done) }()
	select {
	case <-done:
		return res, int(atomic.LoadInt64(&peak)), true
	case <-time.After(120 * time.Second):
		return nil, int(atomic.LoadInt64(&peak)), false
	}
}

func firstDiff(a, b string) string {
	n := len(a)
	if len(b) < n {
		n = len(b)
	}
	i := 0
	for i < n && a[i] == b[i] {
		i++
	}
	lo := i - 60
	if lo < 0 {
		lo = 0
	}
	cut := func(s string) string {
		hi := i + 120
		if hi > len(s) {
			hi = len(s)
		}
		if lo > len(s) {
			return ""
		}
		return s[lo:hi]
	}
	return fmt.Sprintf("first difference at byte %d (lengths %d / %d): …%q… versus …%q…", i, len(a), len(b), cut(a), cut(b))
}

func library(t *T) {
	n := t.Budget(40)
	for c := 0; c < n; c++ {
		r := t.R.Fork(uint64(c))
		nj := r.Range(2, 64)
		w := r.Range(2, 32)
		jobs := make([]jobSpec, nj)
		var key strings.Builder
		// some cases are all of one kind (maximal contention on one code path), others mixed
		only := -1
		if r.Chance(1, 3) {
			only = r.Intn(nJobKinds)
		}
		for i := range jobs {
			k := r.Intn(nJobKinds)
			if only >= 0 {
				k = only
			}
			jobs[i] = jobSpec{k, r.Uint64()}
			fmt.Fprintf(&key, "%s:%x ", jobName[k], jobs[i].seed&0xffff)
		}
		seq1, _, _ := runAll(jobs, 1)
		seq2, _, _ := runAll(jobs, 1)
		stable := make([]bool, nj)
		for i := range jobs {
			stable[i] = seq1[i] == seq2[i]
			if !stable[i] {
				// a job is a function of its seed alone: a second sequential run that differs from the first means the
				// first run (of this or of another job) left something behind that the second one saw
				t.Fail("C19/library/"+jobName[jobs[i].kind]+"/sequential-rerun-differs",
					"the same job run a second time, sequentially, after the other jobs of the case gives another result: work on one file depends on which files were processed before",
					map[string]any{"job": jobName[jobs[i].kind], "job_seed": jobs[i].seed, "case_jobs": key.String()},
					firstDiff(seq2[i], seq1[i]), "byte-identical to the first run")
			}
		}
		peakMax := 0
		for rep := 0; rep < 2; rep++ {
			ww := w
			if rep == 1 {
				ww = 2 + (w*7)%31
			}
			con, peak, ok := runAll(jobs, ww)
			if peak > peakMax {
				peakMax = peak
			}
			if !ok {
				t.Fail("C19/library/hang", "the concurrent run did not finish within 120 s although the sequential run did", map[string]any{"jobs": key.String(), "workers": ww}, "timeout", "same results as sequentially")
				break
			}
			for i := range jobs {
				if stable[i] && con[i] != seq1[i] {
					t.Fail("C19/library/"+jobName[jobs[i].kind]+"/result-differs",
						"a job run among "+fmt.Sprint(ww)+" goroutines gives another result than sequentially",
						map[string]any{"job": jobName[jobs[i].kind], "job_seed": jobs[i].seed, "case_jobs": key.String(), "workers": ww},
						firstDiff(con[i], seq1[i]), "byte-identical to the sequential result")
				}
			}
		}
		unstable := 0
		for i := range jobs {
			if !stable[i] {
				unstable++
			}
		}
		class := "library mixed"
		if only >= 0 {
			class = "library only-" + jobName[only]
		}
		if unstable > 0 {
			class += " (some jobs nondeterministic sequentially, skipped)"
		}
		t.Case(key.String(), class, peakMax >= 2)
		for i := range jobs {
			kind := "valid-or-mutated"
			if strings.HasPrefix(seq1[i], "error:") || strings.HasPrefix(seq1[i], "panic:") {
				kind = "rejected"
			}
			if !stable[i] {
				kind = "nondeterministic-sequentially"
			}
			t.Case(fmt.Sprintf("job %s %x", jobName[jobs[i].kind], jobs[i].seed), "job "+jobName[jobs[i].kind]+" "+kind, stable[i])
		}
	}
}
