package c19

import (
	"bytes"
	"encoding/json"
	"fmt"
	"net/http"
	"net/http/httptest"
	"strings"
	"sync"
	"time"

	kitlog "github.com/go-kit/log"
	"github.com/moov-io/ach"
	"github.com/moov-io/ach/server"
	"verif/harness/gen"
	. "verif/harness/oracle"
)

// newHandler builds the HTTP handler the way cmd/server/main.go does (no TTL, silent logger).
func newHandler() http.Handler {
	repo := server.NewRepositoryInMemory(0, nil)
	svc := server.NewService(repo)
	return server.MakeHTTPHandler(svc, repo, kitlog.NewNopLogger())
}

// request is one prepared HTTP request; the body bytes are never written to.
type request struct {
	name, method, path string
	header             map[string]string
	body               []byte
	stamps             bool // response carries clock-derived creation stamps (flatten, segment)
}

func (q request) String() string {
	return fmt.Sprintf("%s %s %s (%d bytes)", q.name, q.method, q.path, len(q.body))
}

type response struct {
	code int
	body string
}

func do(h http.Handler, q request) (resp response) {
	defer func() {
		if p := recover(); p != nil {
			resp = response{-1, fmt.Sprintf("panic: %v", p)}
		}
	}()
	req := httptest.NewRequest(q.method, q.path, bytes.NewReader(q.body))
	for k, v := range q.header {
		req.Header.Set(k, v)
	}
	rec := httptest.NewRecorder()
	h.ServeHTTP(rec, req)
	body := rec.Body.String()
	if strings.Contains(rec.Header().Get("Content-Type"), "json") {
		body = stripJSON(rec.Body.Bytes(), q.stamps)
	}
	return response{rec.Code, body}
}

var optNames = []string{"skipAll", "requireABAOrigin", "bypassOrigin", "bypassDestination", "customTraceNumbers", "allowZeroBatches",
	"allowMissingFileHeader", "allowMissingFileControl", "bypassCompanyIdentificationMatch", "customReturnCodes", "unequalServiceClassCode",
	"allowUnorderedBatchNumbers", "allowInvalidCheckDigit", "unequalAddendaCounts", "preserveSpaces", "allowInvalidAmounts", "allowZeroEntryAmount", "allowSpecialCharacters"}

func optQuery(r *gen.Rand) string {
	if !r.Chance(1, 3) {
		return ""
	}
	var parts []string
	for k := 0; k < r.Range(1, 3); k++ {
		parts = append(parts, gen.Pick(r, optNames)+"="+gen.Pick(r, []string{"true", "false"}))
	}
	return "?" + strings.Join(parts, "&")
}

// script builds the requests of one client, all addressed to file `id`.
func script(r *gen.Rand, id string) []request {
	var out []request
	mkFile := func() *ach.File {
		f, err := gen.File(r.Fork(uint64(len(out))), genOpts(r))
		if err != nil {
			panic("generator: " + err.Error())
		}
		return f
	}
	// Flatten orders batches of equal batch number by map iteration, so its result is not a
	// function of the file once batch numbers can collide: after a batch was added or deleted,
	// or a mutated body was sent, the script asks for no more flattening.
	tainted := false
	create := func() request {
		f := mkFile()
		invalid := r.Chance(1, 4)
		if invalid {
			tainted = true
		}
		if r.Bool() {
			text, _ := gen.Write(f, r.Chance(1, 4))
			if invalid {
				text = mutateText(r, text)
			}
			return request{name: "create-text", method: "POST", path: "/files/" + id + optQuery(r), header: map[string]string{"Content-Type": "text/plain"}, body: text}
		}
		js, _ := json.Marshal(f)
		if invalid {
			js = mutateJSON(r, js)
		}
		return request{name: "create-json", method: "POST", path: "/files/" + id + optQuery(r), header: map[string]string{"Content-Type": "application/json"}, body: js}
	}
	batchIDs := []string{"b1", "b2", "b3", "extra-1"}
	out = append(out, create())
	n := r.Range(2, 9)
	for i := 0; i < n; i++ {
		switch r.Intn(15) {
		case 0:
			out = append(out, create())
		case 1, 2:
			out = append(out, request{name: "get", method: "GET", path: "/files/" + id})
		case 3:
			out = append(out, request{name: "contents-lf", method: "GET", path: "/files/" + id + "/contents"})
		case 4:
			out = append(out, request{name: "contents-crlf", method: "GET", path: "/files/" + id + "/contents", header: map[string]string{"X-Line-Ending": "CRLF"}})
		case 5:
			out = append(out, request{name: "validate-get", method: "GET", path: "/files/" + id + "/validate" + optQuery(r)})
		case 6:
			body := []byte(`{"allowInvalidAmounts": true, "customTraceNumbers": ` + gen.Pick(r, []string{"true", "false"}) + `}`)
			out = append(out, request{name: "validate-post", method: "POST", path: "/files/" + id + "/validate" + optQuery(r), header: map[string]string{"Content-Type": "application/json"}, body: body})
		case 7:
			out = append(out, request{name: "build", method: "GET", path: "/files/" + id + "/build"})
		case 8:
			tainted = true
			f := mkFile()
			var body []byte
			if len(f.Batches) > 0 {
				b := f.Batches[0]
				b.GetHeader().ID = "extra-1"
				b.SetID("extra-1")
				body, _ = json.Marshal(b)
			} else {
				body = []byte(`{"batchHeader":{}}`)
			}
			out = append(out, request{name: "add-batch", method: "POST", path: "/files/" + id + "/batches", header: map[string]string{"Content-Type": "application/json"}, body: body})
		case 9:
			out = append(out, request{name: "list-batches", method: "GET", path: "/files/" + id + "/batches"})
		case 10:
			out = append(out, request{name: "get-batch", method: "GET", path: "/files/" + id + "/batches/" + gen.Pick(r, batchIDs)})
		case 11:
			tainted = true
			out = append(out, request{name: "delete-batch", method: "DELETE", path: "/files/" + id + "/batches/" + gen.Pick(r, batchIDs)})
		case 12:
			if tainted {
				out = append(out, request{name: "get", method: "GET", path: "/files/" + id})
				break
			}
			out = append(out, request{name: "flatten", method: "POST", path: "/files/" + id + "/flatten", stamps: true})
		case 13:
			out = append(out, request{name: "segment-id", method: "POST", path: "/files/" + id + "/segment", header: map[string]string{"Content-Type": "application/json"}, body: []byte(`{}`), stamps: true})
		case 14:
			out = append(out, request{name: "delete", method: "DELETE", path: "/files/" + id})
		}
	}
	return out
}

func httpPart(t *T) {
	n := t.Budget(40)
	for c := 0; c < n; c++ {
		r := t.R.Fork(uint64(0x48000000 + c))
		nc := r.Range(2, 32)
		scripts := make([][]request, nc)
		var key strings.Builder
		genFailed := ""
		func() {
			defer func() {
				if p := recover(); p != nil {
					genFailed = fmt.Sprint(p)
				}
			}()
			for i := range scripts {
				scripts[i] = script(r.Fork(uint64(i)), fmt.Sprintf("c19-%02d", i))
				for _, q := range scripts[i] {
					key.WriteString(q.name + ",")
				}
				key.WriteString(";")
			}
		}()
		if genFailed != "" {
			t.Fail("C19/generator", "generator failed", nil, genFailed, "valid files")
			continue
		}
		// sequential reference: client after client on a fresh handler
		hs := newHandler()
		seq := make([][]response, nc)
		for i, sc := range scripts {
			for _, q := range sc {
				seq[i] = append(seq[i], do(hs, q))
			}
		}
		// concurrent: one goroutine per client on another fresh handler
		hc := newHandler()
		con := make([][]response, nc)
		var wg sync.WaitGroup
		start := make(chan struct{})
		for i := range scripts {
			wg.Add(1)
			go func(i int) {
				defer wg.Done()
				<-start
				out := make([]response, 0, len(scripts[i]))
				for _, q := range scripts[i] {
					out = append(out, do(hc, q))
				}
				con[i] = out
			}(i)
		}
		close(start)
		done := make(chan struct{})
		go func() { wg.Wait(); close(done) }()
		select {
		case <-done:
		case <-time.After(120 * time.Second):
			t.Fail("C19/http/hang", "concurrent requests to different file IDs did not finish within 120 s", map[string]any{"scripts": key.String()}, "timeout", "same responses as sequentially")
			continue
		}
		for i := range scripts {
			for k, q := range scripts[i] {
				a, b := con[i][k], seq[i][k]
				if a.code != b.code || a.body != b.body {
					var prior []string
					for _, p := range scripts[i][:k+1] {
						prior = append(prior, p.String())
					}
					t.Fail("C19/http/"+q.name+"/response-differs", "a request answered differently when other file IDs are served concurrently",
						map[string]any{"client": i, "clients": nc, "requests_of_this_client": prior, "last_body": string(q.body)},
						fmt.Sprintf("status %d; %s", a.code, firstDiff(a.body, b.body)), fmt.Sprintf("status %d and the sequential body", b.code))
					break
				}
			}
		}
		t.Case(key.String(), fmt.Sprintf("http clients=%s", bucket(nc)), nc >= 2)
		for i := range scripts {
			for k, q := range scripts[i] {
				t.Case(fmt.Sprintf("%d/%d/%d %s", c, i, k, q.name), fmt.Sprintf("http-request %s status=%d", q.name, seq[i][k].code), true)
			}
		}
	}
}

func bucket(n int) string {
	switch {
	case n <= 4:
		return "2..4"
	case n <= 8:
		return "5..8"
	case n <= 16:
		return "9..16"
	}
	return "17..32"
}
