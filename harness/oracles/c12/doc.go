// Package c12 holds the oracle for property C12.
package c12
