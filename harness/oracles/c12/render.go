package c12

import (
	"errors"
	"fmt"
	"strings"

	"github.com/moov-io/ach"
)

// stdLines / iatLines / advLines render an entry and its addenda with the
// library's own String methods in the order the Writer emits them.

func stdLines(e *ach.EntryDetail) []string {
	ls := []string{e.String()}
	if e.Addenda02 != nil {
		ls = append(ls, e.Addenda02.String())
	}
	for _, a := range e.Addenda05 {
		if a != nil {
			ls = append(ls, a.String())
		}
	}
	if e.Addenda98 != nil {
		ls = append(ls, e.Addenda98.String())
	}
	if e.Addenda98Refused != nil {
		ls = append(ls, e.Addenda98Refused.String())
	}
	if e.Addenda99 != nil {
		ls = append(ls, e.Addenda99.String())
	}
	if e.Addenda99Dishonored != nil {
		ls = append(ls, e.Addenda99Dishonored.String())
	}
	if e.Addenda99Contested != nil {
		ls = append(ls, e.Addenda99Contested.String())
	}
	return ls
}

func iatLines(e *ach.IATEntryDetail) []string {
	ls := []string{e.String()}
	if e.Addenda10 != nil {
		ls = append(ls, e.Addenda10.String())
	}
	if e.Addenda11 != nil {
		ls = append(ls, e.Addenda11.String())
	}
	if e.Addenda12 != nil {
		ls = append(ls, e.Addenda12.String())
	}
	if e.Addenda13 != nil {
		ls = append(ls, e.Addenda13.String())
	}
	if e.Addenda14 != nil {
		ls = append(ls, e.Addenda14.String())
	}
	if e.Addenda15 != nil {
		ls = append(ls, e.Addenda15.String())
	}
	if e.Addenda16 != nil {
		ls = append(ls, e.Addenda16.String())
	}
	for _, a := range e.Addenda17 {
		if a != nil {
			ls = append(ls, a.String())
		}
	}
	for _, a := range e.Addenda18 {
		if a != nil {
			ls = append(ls, a.String())
		}
	}
	if e.Addenda98 != nil {
		ls = append(ls, e.Addenda98.String())
	}
	if e.Addenda99 != nil {
		ls = append(ls, e.Addenda99.String())
	}
	return ls
}

func advLines(e *ach.ADVEntryDetail) []string {
	ls := []string{e.String()}
	if e.Addenda99 != nil {
		ls = append(ls, e.Addenda99.String())
	}
	return ls
}

// maskTail replaces the last n columns (runes) of a record by '#'.
func maskTail(line string, n int) string {
	rs := []rune(line)
	for i := len(rs) - n; i < len(rs); i++ {
		if i >= 0 {
			rs[i] = '#'
		}
	}
	return string(rs)
}

// maskTrace blanks trace numbers and the sequence numbers derived from them
// (same rule as the C11 oracle): last 15 columns of entry / 02 / 98 / 99
// records, last 7 columns of 05 and 10..18 addenda.
func maskTrace(line string) string {
	rs := []rune(line)
	if len(rs) != 94 {
		return line
	}
	switch {
	case rs[0] == '6':
		return maskTail(line, 15)
	case rs[0] == '7':
		switch string(rs[1:3]) {
		case "02", "98", "99":
			return maskTail(line, 15)
		}
		return maskTail(line, 7)
	}
	return line
}

func sanitize(s string) string {
	var b strings.Builder
	prev := byte('-')
	for _, r := range s {
		c := byte('-')
		switch {
		case r >= '0' && r <= '9':
			c = 'N'
		case r >= 'a' && r <= 'z', r >= 'A' && r <= 'Z':
			c = byte(r)
		}
		if (c == '-' || c == 'N') && prev == c {
			continue
		}
		b.WriteByte(c)
		prev = c
	}
	out := strings.Trim(b.String(), "-")
	if len(out) > 56 {
		out = out[:56]
	}
	return out
}

// errClass reduces a library error to a stable class: the field names of the
// wrapping BatchError / FieldError and the Go type (or, for plain errors, the
// digit-free message) of the innermost error.
func errClass(err error) string {
	var parts []string
	for e := err; e != nil; {
		switch v := e.(type) {
		case *ach.BatchError:
			parts = append(parts, v.FieldName)
			e = v.Err
			continue
		case *ach.FieldError:
			parts = append(parts, v.FieldName)
			e = v.Err
			continue
		}
		tn := strings.TrimPrefix(fmt.Sprintf("%T", e), "*")
		if u := errors.Unwrap(e); u != nil && tn == "ach.reportableError" {
			e = u // askForBugReports wrapper
			continue
		}
		if strings.HasPrefix(tn, "ach.") {
			parts = append(parts, strings.TrimPrefix(tn, "ach."))
		} else {
			parts = append(parts, sanitize(e.Error()))
		}
		break
	}
	return strings.Join(parts, "/")
}
