// Package c12 holds the oracle for property C12: FlattenBatches consolidates
// batches without changing the entries.
package c12

import (
	"bytes"
	"errors"
	"fmt"
	"sort"
	"strings"
	"time"

	"github.com/moov-io/ach"
	"verif/harness/gen"
	. "verif/harness/oracle"
)

// ---- snapshots ------------------------------------------------------------

type entrySnap struct {
	kind   string // "std" | "IAT" | "ADV"
	sec    string
	trace  string // rendered 15 digit trace number ("" for ADV)
	full   string // records joined by "\n" (ADV: the position-derived 4 digit sequence number masked)
	masked string // additionally trace / trace-derived sequence numbers masked
}

type batchSnap struct {
	kind    string
	sec     string
	header  string // rendered header record, batch number (last 7 columns) masked
	bytes87 string // first 87 bytes of the rendered header
	number  int
	cat     string // entry category of the batch (the library's Category field of its first non-NOC entry)
	entries []entrySnap
}

type fileSnap struct {
	batches                        []batchSnap
	count, totalDebit, totalCredit int
}

func joinLines(ls []string, f func(string) string) string {
	out := make([]string, 0, len(ls))
	for _, l := range ls {
		if l != "" {
			out = append(out, f(l))
		}
	}
	return strings.Join(out, "\n")
}

func ident(s string) string { return s }

func snapshot(f *ach.File) fileSnap {
	var s fileSnap
	adv := false
	for _, b := range f.Batches {
		bh := b.GetHeader()
		bs := batchSnap{kind: "std", sec: bh.StandardEntryClassCode, header: maskTail(bh.String(), 7), bytes87: first87(bh.String()), number: bh.BatchNumber}
		for _, e := range b.GetEntries() {
			ls := stdLines(e)
			bs.entries = append(bs.entries, entrySnap{"std", bs.sec, e.TraceNumberField(), joinLines(ls, ident), joinLines(ls, maskTrace)})
			if bs.cat == "" && e.Category != ach.CategoryNOC {
				bs.cat = e.Category
			}
		}
		if bh.StandardEntryClassCode == ach.ADV {
			adv = true
			bs.kind = "ADV"
			for _, e := range b.GetADVEntries() {
				ls := advLines(e)
				// the sequence number of an ADV entry is its position in the batch
				ls[0] = maskTail(ls[0], 4)
				bs.entries = append(bs.entries, entrySnap{"ADV", bs.sec, "", joinLines(ls, ident), joinLines(ls, ident)})
				if bs.cat == "" {
					bs.cat = e.Category
				}
			}
		}
		s.batches = append(s.batches, bs)
	}
	for i := range f.IATBatches {
		b := &f.IATBatches[i]
		bh := b.GetHeader()
		bs := batchSnap{kind: "IAT", sec: ach.IAT, header: maskTail(bh.String(), 7), bytes87: first87(bh.String()), number: bh.BatchNumber}
		for _, e := range b.GetEntries() {
			ls := iatLines(e)
			bs.entries = append(bs.entries, entrySnap{"IAT", ach.IAT, e.TraceNumberField(), joinLines(ls, ident), joinLines(ls, maskTrace)})
			if bs.cat == "" && e.Category != ach.CategoryNOC {
				bs.cat = e.Category
			}
		}
		s.batches = append(s.batches, bs)
	}
	if adv {
		s.count, s.totalDebit, s.totalCredit = f.ADVControl.EntryAddendaCount, f.ADVControl.TotalDebitEntryDollarAmountInFile, f.ADVControl.TotalCreditEntryDollarAmountInFile
	} else {
		s.count, s.totalDebit, s.totalCredit = f.Control.EntryAddendaCount, f.Control.TotalDebitEntryDollarAmountInFile, f.Control.TotalCreditEntryDollarAmountInFile
	}
	return s
}

func first87(s string) string {
	if len(s) > 87 {
		return s[:87]
	}
	return s
}

func (s fileSnap) entries() []entrySnap {
	var out []entrySnap
	for _, b := range s.batches {
		out = append(out, b.entries...)
	}
	return out
}

// text writes f and masks the file creation date and time of the file header
// (columns 24-33), which Flatten sets from the clock.
func text(f *ach.File) (string, error) {
	var buf bytes.Buffer
	if err := ach.NewWriter(&buf).Write(f); err != nil {
		return "", err
	}
	s := buf.String()
	nl := strings.IndexByte(s, '\n')
	if nl < 0 {
		nl = len(s)
	}
	rs := []rune(s[:nl])
	for i := 23; i < 33 && i < len(rs); i++ {
		rs[i] = '#'
	}
	return string(rs) + s[nl:], nil
}

// ---- inputs -----------------------------------------------------------------

// copyHeader makes dst's header equal to src's in every written field but the
// batch number.
func copyHeader(dst, src *ach.BatchHeader) {
	id, num := dst.ID, dst.BatchNumber
	*dst = *src
	dst.ID, dst.BatchNumber = id, num
}

// advFile builds an ADV file whose batch headers repeat (gen's HeaderPool does
// not apply to ADV files): some batches take over the header of an earlier one
// and are created again.
func advFile(r *gen.Rand, maxBatches, maxEntries int) (*ach.File, error) {
	f, err := gen.File(r, gen.Opts{SECs: []string{ach.ADV}, Categories: []string{ach.CategoryForward, ach.CategoryReturn},
		MinBatches: 1, MaxBatches: maxBatches, MaxEntries: maxEntries, FullWidth: r.Chance(1, 5)})
	if err != nil {
		return nil, err
	}
	for j := 1; j < len(f.Batches); j++ {
		if r.Chance(2, 3) {
			i := r.Intn(j)
			copyHeader(f.Batches[j].GetHeader(), f.Batches[i].GetHeader())
			if err := f.Batches[j].Create(); err != nil {
				return nil, fmt.Errorf("ADV batch re-Create: %w", err)
			}
		}
	}
	return f, f.Create()
}

// twinFile builds a file of standard batches in which some batches of
// different categories (forward / return / dishonored / contested) carry the
// same header: each twin is generated on its own, takes over the header of an
// earlier batch of the same SEC and service class and is created again (which
// re-derives its trace numbers from the new ODFI).
func twinFile(r *gen.Rand, maxBatches, maxEntries int) (*ach.File, error) {
	secs := []string{ach.PPD, ach.CCD, ach.WEB, ach.TEL, ach.ARC, ach.CIE, ach.POP, ach.BOC, ach.RCK, ach.MTE, ach.POS, ach.SHR, ach.TRC, ach.XCK}
	sec := gen.Pick(r, secs)
	// the header of every batch comes from a base file (also gives a valid file header)
	f, err := gen.File(r, gen.Opts{SECs: []string{sec}, MinBatches: 1, MaxBatches: 1, MaxEntries: maxEntries})
	if err != nil {
		return nil, err
	}
	base := f.Batches[0].GetHeader()
	cats := []string{ach.CategoryForward, ach.CategoryReturn, ach.CategoryDishonoredReturn, ach.CategoryDishonoredReturnContested}
	n := r.Range(1, maxBatches-1)
	for k := 0; k < n; k++ {
		b, err := gen.Batch(r.Fork(uint64(k)), sec, gen.Opts{Categories: []string{gen.Pick(r, cats)}, ServiceClasses: []int{base.ServiceClassCode}, MaxEntries: maxEntries})
		if err != nil {
			return nil, err
		}
		if r.Chance(3, 4) {
			desc := b.GetHeader().CompanyEntryDescription
			copyHeader(b.GetHeader(), base)
			if strings.EqualFold(desc, "PRENOTE") != strings.EqualFold(base.CompanyEntryDescription, "PRENOTE") {
				continue // a prenote batch and a money batch cannot share a header
			}
			if r.Chance(3, 4) {
				// distinct trace numbers, so that the twins can be merged
				seq := 1000*(k+1) + r.Intn(500)
				for _, e := range b.GetEntries() {
					e.SetTraceNumber(base.ODFIIdentification, seq)
					seq += r.Range(1, 3)
				}
			}
			if err := b.Create(); err != nil {
				return nil, fmt.Errorf("twin re-Create: %w", err)
			}
		}
		b.GetHeader().BatchNumber = 0
		f.AddBatch(b)
	}
	return f, f.Create()
}

// iatTwinFile is twinFile for IAT batches (forward and return batches under
// one header).
func iatTwinFile(r *gen.Rand, maxBatches, maxEntries int) (*ach.File, error) {
	f, err := gen.File(r, gen.Opts{SECs: []string{ach.IAT}, MinBatches: 1, MaxBatches: 1, MaxEntries: maxEntries, ServiceClasses: []int{ach.MixedDebitsAndCredits}})
	if err != nil {
		return nil, err
	}
	base := f.IATBatches[0].GetHeader()
	n := r.Range(1, maxBatches-1)
	for k := 0; k < n; k++ {
		cat := gen.Pick(r, []string{ach.CategoryForward, ach.CategoryReturn})
		b, err := gen.IATBatch(r.Fork(uint64(k)), gen.Opts{Categories: []string{cat}, ServiceClasses: []int{ach.MixedDebitsAndCredits}, MaxEntries: maxEntries})
		if err != nil {
			return nil, err
		}
		if r.Chance(3, 4) {
			h := b.GetHeader()
			id := h.ID
			*h = *base
			h.ID, h.BatchNumber = id, 0
			seq := 1
			if r.Chance(3, 4) {
				seq = 1000*(k+1) + r.Intn(500)
			}
			for _, e := range b.GetEntries() {
				e.SetTraceNumber(base.ODFIIdentification, seq)
				if e.Addenda99 != nil {
					e.Addenda99.TraceNumber = e.TraceNumber
				}
				seq += r.Range(1, 3)
			}
			if err := b.Create(); err != nil {
				return nil, fmt.Errorf("IAT twin re-Create: %w", err)
			}
		}
		b.GetHeader().BatchNumber = 0
		f.AddIATBatch(b)
	}
	return f, f.Create()
}

// odfiTwinFile builds a file of standard forward batches whose headers (mostly
// carrying non-ASCII characters) differ in the last digit of the ODFI
// identification only (columns 80-87, the last field before the batch number).
func odfiTwinFile(r *gen.Rand, maxBatches, maxEntries int) (*ach.File, error) {
	sec := gen.Pick(r, []string{ach.PPD, ach.CCD, ach.WEB, ach.TEL, ach.CTX})
	f, err := gen.File(r, gen.Opts{SECs: []string{sec}, MinBatches: 1, MaxBatches: 1, MaxEntries: maxEntries, PresetTraces: r.Bool()})
	if err != nil {
		return nil, err
	}
	base := f.Batches[0].GetHeader()
	// (one in four keeps an ASCII name: then the headers differ within the first 87 bytes)
	base.CompanyName = gen.Pick(r, []string{"M\u00fcller GmbH", "Caf\u00e9 \u00c9lys\u00e9e", "\u00c5\u00c4\u00d6 AB", "Pe\u00f1a e Hijos", "Miller Inc"})
	if err := f.Batches[0].Create(); err != nil {
		return nil, fmt.Errorf("base re-Create: %w", err)
	}
	n := r.Range(1, maxBatches-1)
	for k := 0; k < n; k++ {
		b, err := gen.Batch(r.Fork(uint64(k)), sec, gen.Opts{ServiceClasses: []int{base.ServiceClassCode}, MaxEntries: maxEntries})
		if err != nil {
			return nil, err
		}
		if strings.EqualFold(b.GetHeader().CompanyEntryDescription, "PRENOTE") != strings.EqualFold(base.CompanyEntryDescription, "PRENOTE") {
			continue
		}
		copyHeader(b.GetHeader(), base)
		if r.Chance(3, 4) {
			od := []byte(base.ODFIIdentification)
			od[len(od)-1] = '0' + (od[len(od)-1]-'0'+byte(r.Range(1, 9)))%10
			b.GetHeader().ODFIIdentification = string(od)
		}
		if r.Bool() {
			seq := 1000*(k+1) + r.Intn(500)
			for _, e := range b.GetEntries() {
				e.SetTraceNumber(b.GetHeader().ODFIIdentification, seq)
				seq += r.Range(1, 3)
			}
		}
		if err := b.Create(); err != nil {
			return nil, fmt.Errorf("ODFI twin re-Create: %w", err)
		}
		b.GetHeader().BatchNumber = 0
		f.AddBatch(b)
	}
	return f, f.Create()
}

func setNumbers(r *gen.Rand, f *ach.File) {
	n := 0
	for _, b := range f.Batches {
		n += r.Range(1, 4)
		b.GetHeader().BatchNumber = n
		if b.GetHeader().StandardEntryClassCode == ach.ADV {
			b.GetADVControl().BatchNumber = n
		} else {
			b.GetControl().BatchNumber = n
		}
	}
	for i := range f.IATBatches {
		n += r.Range(1, 4)
		f.IATBatches[i].GetHeader().BatchNumber = n
		f.IATBatches[i].GetControl().BatchNumber = n
	}
}

// ---- the oracle ---------------------------------------------------------------

type flatResult struct {
	f     *ach.File
	err   error
	panic string
}

func flatten(f *ach.File) (flatResult, bool) {
	ch := make(chan flatResult, 1)
	go func() {
		var res flatResult
		defer func() {
			if p := recover(); p != nil {
				res.panic = fmt.Sprint(p)
			}
			ch <- res
		}()
		res.f, res.err = f.FlattenBatches()
	}()
	select {
	case res := <-ch:
		return res, true
	case <-time.After(20 * time.Second):
		return flatResult{}, false
	}
}

func init() {
	Register("C12", &Oracle{
		Rule: "valid generator files whose batch headers are drawn from a pool of 1..6 variants (every standard SEC + IAT, all categories, offsets), with pre-set and header-derived (colliding) trace numbers on and off, " +
			"batch sizes 1..8, batch numbers as created or with gaps; ADV files with repeated headers; files where forward/return/dishonored batches share one header -> FlattenBatches, then FlattenBatches of the result; " +
			"distinct = distinct pattern of (kind, header class, size, trace set) per file; non-trivial = at least two batches of the input have equal headers",
		Run: run,
	})
}

func run(t *T) {
	n := t.Budget(6000)
	for i := 0; i < n; i++ {
		r := t.R.Fork(uint64(i))
		var f *ach.File
		var err error
		shape := ""
		maxB, maxE := 2+r.Intn(7), 1+r.Intn(8)
		minB := 2
		if r.Chance(1, 10) {
			minB = 1
		}
		switch k := i % 10; {
		case k == 0:
			shape = "ADV-repeated-headers"
			f, err = advFile(r, maxB, maxE)
		case k == 1:
			shape = "category-twins"
			if r.Chance(1, 4) {
				shape = "ODFI-twins"
				f, err = odfiTwinFile(r, maxB+1, maxE)
			} else if r.Chance(1, 3) {
				shape = "category-twins-IAT"
				f, err = iatTwinFile(r, maxB+1, maxE)
			} else {
				f, err = twinFile(r, maxB+1, maxE)
			}
		default:
			o := gen.Opts{
				IATCorrections:  true,
				Categories:      gen.AllCategories(),
				MinBatches:      minB,
				MaxBatches:      maxB,
				MaxEntries:      maxE,
				HeaderPool:      1 + r.Intn(6),
				PresetTraces:    r.Chance(2, 3),
				CollidingTraces: r.Bool(),
				Offset:          r.Chance(1, 4),
				FullWidth:       r.Chance(1, 6),
				NonASCII:        r.Chance(1, 8),
				MaxAddenda:      r.Range(1, 3),
			}
			switch k {
			case 2:
				o.SECs = []string{ach.IAT}
				shape = "pool/IAT"
			case 3:
				o.SECs = []string{ach.IAT, ach.PPD, ach.CCD}
				shape = "pool/std+IAT"
			case 4:
				o.SECs = []string{ach.PPD, ach.CTX}
				o.Categories = nil
				shape = "pool/PPD+CTX-forward"
			default:
				o.SECs = nil
				for _, s := range gen.AllSECs() {
					if s != ach.ADV {
						o.SECs = append(o.SECs, s)
					}
				}
				shape = "pool/all"
			}
			if !o.PresetTraces {
				o.CollidingTraces = false
			}
			f, err = gen.File(r, o)
		}
		if err != nil {
			t.Fail("C12/generator", "generator failed ("+shape+")", nil, err.Error(), "a valid file")
			continue
		}
		if r.Chance(1, 3) {
			setNumbers(r, f)
			if err := f.Create(); err != nil {
				t.Fail("C12/generator", "File.Create after renumbering failed", FileInput(f), err.Error(), "nil")
				continue
			}
		}
		if err := f.Validate(); err != nil {
			t.Fail("C12/generator", "input file is not valid ("+shape+")", FileInput(f), err.Error(), "a valid file")
			continue
		}
		// every fifth file carries stored options (one boolean option at a time): it is valid without them, so it is a
		// valid file, and flattening must succeed and give a valid file all the same
		if i%5 == 4 {
			o, name := SingleFlagOpts(i / 5)
			SetAllValidation(f, o)
			if f.Validate() == nil {
				shape += "/stored-" + name
			} else {
				SetAllValidation(f, nil)
			}
		}
		checkFile(t, f, shape)
	}
}

// pattern canonically describes a file for counting distinct cases: headers
// are replaced by their index of first occurrence.
func pattern(s fileSnap) (key string, repeats, collisions bool) {
	idx := map[string]int{}
	traces := map[string]map[string]bool{}
	var b strings.Builder
	for _, x := range s.batches {
		k, seen := idx[x.header]
		if !seen {
			k = len(idx)
			idx[x.header] = k
			traces[x.header] = map[string]bool{}
		} else {
			repeats = true
		}
		fmt.Fprintf(&b, "|%s%s:h%d:n%d:", x.kind, x.sec, k, len(x.entries))
		for _, e := range x.entries {
			if e.trace != "" {
				if traces[x.header][e.trace] {
					collisions = true
				}
				traces[x.header][e.trace] = true
				b.WriteString(e.trace[8:] + ",")
			}
		}
	}
	return b.String(), repeats, collisions
}

func checkFile(t *T, f *ach.File, shape string) {
	in := snapshot(f)
	key, repeats, collisions := pattern(in)
	class := shape
	switch {
	case repeats && collisions:
		class += "/repeated-headers+trace-collisions"
	case repeats:
		class += "/repeated-headers"
	default:
		class += "/all-headers-distinct"
	}
	t.Case(key, class, repeats)
	input := FileInput(f)

	res, done := flatten(f)
	if !done {
		t.Fail("C12/hang", "FlattenBatches did not return within 20s", input, "no result", "a flattened file")
		return
	}
	if res.panic != "" {
		t.Fail("C12/panic/"+sanitize(res.panic), "FlattenBatches panicked", input, res.panic, "a flattened file")
		return
	}
	if res.err != nil {
		// With a known shape in the input the two ways Flatten notices that a merged
		// batch could not be created are one class; any other error keeps its own.
		sig := "C12/flatten-error/" + errClass(res.err) + "/" + kinds(in)
		if sh := shapeOf(in); sh != "" {
			sig += sh
			if errors.Is(res.err, ach.ErrFileNoBatches) || errors.Is(res.err, ach.ErrFlattenChangedEntryCount) {
				sig = "C12/flatten-error/merged-batch-dropped/" + kinds(in) + sh
			}
		}
		t.Fail(sig, "FlattenBatches returned an error on a valid file", input, res.err.Error(), "nil error")
		return
	}
	if res.f == nil {
		t.Fail("C12/nil-output", "FlattenBatches returned nil without an error", input, "nil", "a file")
		return
	}
	out := snapshot(res.f)

	// valid result
	if err := res.f.Validate(); err != nil {
		t.Fail("C12/result-invalid/"+errClass(err), "flattened file does not pass Validate", input, err.Error(), "nil")
	}
	checkBatches(t, input, res.f)

	// same multiset of entries; counts and totals (a consequence when entries
	// were lost or added, so only reported on their own)
	same, exact := compareEntries(t, input, in.entries(), out.entries(), shapeOf(in))
	if !same {
	} else if out.count != in.count {
		t.Fail("C12/entry-addenda-count", "entry/addenda count of the file control changed", input, fmt.Sprint(out.count), fmt.Sprint(in.count))
	} else if out.totalDebit != in.totalDebit || out.totalCredit != in.totalCredit {
		t.Fail("C12/totals", "debit/credit totals of the file control changed", input,
			fmt.Sprintf("debit=%d credit=%d", out.totalDebit, out.totalCredit), fmt.Sprintf("debit=%d credit=%d", in.totalDebit, in.totalCredit))
	}

	// no two batches with equal headers unless they share a trace number
	for i := 0; i < len(out.batches); i++ {
		for j := i + 1; j < len(out.batches); j++ {
			a, b := out.batches[i], out.batches[j]
			if a.kind != b.kind || a.header != b.header {
				continue
			}
			shared := false
			seen := map[string]bool{}
			for _, e := range a.entries {
				if e.trace != "" {
					seen[e.trace] = true
				}
			}
			for _, e := range b.entries {
				if e.trace != "" && seen[e.trace] {
					shared = true
				}
			}
			if !shared {
				t.Fail("C12/equal-headers-not-merged/"+a.kind, "two batches of the result have equal headers (ignoring the batch number) and share no trace number", input,
					fmt.Sprintf("batches #%d and #%d with header %s", a.number, b.number, a.header), "merged into one batch")
			}
		}
	}

	// entries ascending by trace number within each batch
	for _, b := range out.batches {
		for k := 1; k < len(b.entries); k++ {
			if b.kind != "ADV" && b.entries[k].trace < b.entries[k-1].trace {
				t.Fail("C12/trace-order/"+b.kind, "entries of a flattened batch are not in ascending trace order", input,
					fmt.Sprintf("batch #%d: %s after %s", b.number, b.entries[k].trace, b.entries[k-1].trace), "ascending trace numbers")
				break
			}
		}
	}

	// flattening again changes nothing (only asked of a result that has the input's entries)
	first, err := text(res.f)
	if err != nil || !exact {
		return // already reported
	}
	res2, done := flatten(res.f)
	switch {
	case !done:
		t.Fail("C12/second-flatten/hang"+shapeOf(in), "FlattenBatches of the result did not return within 20s", input, "no result", "the same file")
	case res2.panic != "":
		t.Fail("C12/second-flatten/panic/"+sanitize(res2.panic)+shapeOf(in), "FlattenBatches of the result panicked", input, res2.panic, "the same file")
	case res2.err != nil:
		t.Fail("C12/second-flatten/error/"+errClass(res2.err)+shapeOf(in), "FlattenBatches of the result returned an error", input, res2.err.Error(), "nil error")
	case res2.f == nil:
		t.Fail("C12/second-flatten/nil-output", "FlattenBatches of the result returned nil", input, "nil", "a file")
	default:
		second, err := text(res2.f)
		if err != nil {
			t.Fail("C12/second-flatten/unwritable/"+errClass(err), "the twice flattened file cannot be written", input, err.Error(), "nil")
		} else if second != first {
			t.Fail("C12/second-flatten/changed"+shapeOf(in), "flattening the result again changed the file", input, diffLine(first, second), "identical NACHA text (file creation date/time masked)")
		}
	}
}

// mixedCategories tells (for the signature) whether the input has the shape
// behind D17: two batches of the same kind with equal headers and no common
// trace number - which Flatten therefore merges - whose entries are of
// different categories (forward / return / dishonored / contested), so that
// the merged batch cannot be created.
func mixedCategories(in fileSnap) string {
	for i, a := range in.batches {
		for _, b := range in.batches[i+1:] {
			if a.kind != b.kind || a.header != b.header || a.cat == b.cat || a.cat == "" || b.cat == "" {
				continue
			}
			seen := map[string]bool{}
			for _, e := range a.entries {
				seen[e.trace] = e.trace != ""
			}
			shared := false
			for _, e := range b.entries {
				shared = shared || seen[e.trace]
			}
			if !shared {
				return "/equal-headers-different-categories"
			}
		}
	}
	return ""
}

// bytePrefixTwins tells whether two batches of the input have different
// headers (ignoring the batch number) that agree in their first 87 bytes:
// with multi-byte characters in a header the first 87 bytes are fewer than 87
// columns, so a difference in the last columns before the batch number (ODFI
// identification, originator status code, ...) lies beyond them.
func bytePrefixTwins(in fileSnap) string {
	for i, a := range in.batches {
		for _, b := range in.batches[i+1:] {
			if a.kind == b.kind && a.header != b.header && a.bytes87 == b.bytes87 {
				return "/headers-differ-after-byte-87-only"
			}
		}
	}
	return ""
}

func shapeOf(in fileSnap) string { return mixedCategories(in) + bytePrefixTwins(in) }

func diffLine(a, b string) string {
	la, lb := strings.Split(a, "\n"), strings.Split(b, "\n")
	for i := 0; i < len(la) || i < len(lb); i++ {
		x, y := "<none>", "<none>"
		if i < len(la) {
			x = la[i]
		}
		if i < len(lb) {
			y = lb[i]
		}
		if x != y {
			return fmt.Sprintf("first difference at line %d:\n once: %s\ntwice: %s", i+1, x, y)
		}
	}
	return "no difference"
}

// checkBatches validates every batch of the result on its own (File.Validate
// skips IAT batches and the batches of ADV files, D6); the verdict of the
// library's Reader on the written result is attached as evidence.
func checkBatches(t *T, input map[string]any, f *ach.File) {
	report := func(sec string, err error) {
		var buf bytes.Buffer
		evidence := ""
		if werr := ach.NewWriter(&buf).Write(f); werr != nil {
			evidence = "; Writer: " + werr.Error()
		} else if _, rerr := ach.NewReader(bytes.NewReader(buf.Bytes())).Read(); rerr != nil {
			evidence = "; the written result is rejected by ach.NewReader: " + rerr.Error()
		} else {
			evidence = "; (the written result is accepted by ach.NewReader)"
		}
		kind := "std"
		if sec == ach.IAT || sec == ach.ADV {
			kind = sec
		}
		t.Fail("C12/result-batch-invalid/"+kind+"/"+errClass(err), "a batch of the flattened file does not pass its own Validate", input, err.Error()+evidence, "nil")
	}
	for _, b := range f.Batches {
		if err := b.Validate(); err != nil {
			report(b.GetHeader().StandardEntryClassCode, err)
		}
	}
	for i := range f.IATBatches {
		if err := f.IATBatches[i].Validate(); err != nil {
			report(ach.IAT, err)
		}
	}
}

func count(es []entrySnap, key func(entrySnap) string) map[string]int {
	m := map[string]int{}
	for _, e := range es {
		m[key(e)]++
	}
	return m
}

// kinds names the batch kinds of a file: "std", "IAT", "ADV" or "IAT+std".
func kinds(in fileSnap) string {
	set := map[string]bool{}
	for _, b := range in.batches {
		set[b.kind] = true
	}
	var ks []string
	for k := range set {
		ks = append(ks, k)
	}
	sort.Strings(ks)
	return strings.Join(ks, "+")
}

// sigKey is the SEC code, or - when the input has a known shape, whose effect
// does not depend on the SEC - the kind of the batches of that SEC.
func sigKey(in []entrySnap, sec, shape string) string {
	if shape == "" {
		return sec
	}
	for _, e := range in {
		if e.sec == sec {
			return e.kind
		}
	}
	return sec
}

// compareEntries reports whether the two multisets are equal up to trace and
// sequence numbers (same) and exactly (exact); shape is appended to the signatures.
func compareEntries(t *T, input map[string]any, in, out []entrySnap, shape string) (same, exact bool) {
	diff := func(key func(entrySnap) string) (lost, extra map[string][]string, secs []string) {
		a, b := count(in, key), count(out, key)
		secOf := map[string]string{}
		for _, e := range in {
			secOf[key(e)] = e.sec
		}
		for _, e := range out {
			secOf[key(e)] = e.sec
		}
		var keys []string
		for k := range secOf {
			keys = append(keys, k)
		}
		sort.Strings(keys)
		lost, extra = map[string][]string{}, map[string][]string{}
		set := map[string]bool{}
		for _, k := range keys {
			rec := k[strings.Index(k, "\x00")+1:]
			switch {
			case a[k] > b[k]:
				lost[secOf[k]] = append(lost[secOf[k]], rec)
				set[secOf[k]] = true
			case a[k] < b[k]:
				extra[secOf[k]] = append(extra[secOf[k]], rec)
				set[secOf[k]] = true
			}
		}
		for s := range set {
			secs = append(secs, s)
		}
		sort.Strings(secs)
		return
	}
	show := func(lost, extra []string) string {
		return fmt.Sprintf("missing from the result:\n%s\nonly in the result:\n%s", strings.Join(lost, "\n--\n"), strings.Join(extra, "\n--\n"))
	}
	lost, extra, secs := diff(func(e entrySnap) string { return e.kind + "\x00" + e.masked })
	for _, s := range secs {
		what := "altered"
		switch {
		case len(extra[s]) == 0:
			what = "lost"
		case len(lost[s]) == 0:
			what = "added"
		}
		t.Fail("C12/entry-multiset/"+sigKey(in, s, shape)+"/"+what+shape, "the entries of the flattened file are not the input's entries", input, show(lost[s], extra[s]),
			"the same multiset of entries with their addenda (shown with trace and sequence numbers masked)")
	}
	if len(secs) > 0 {
		return false, false
	}
	lost, extra, secs = diff(func(e entrySnap) string { return e.kind + "\x00" + e.full })
	for _, s := range secs {
		t.Fail("C12/entry-multiset/"+sigKey(in, s, shape)+"/trace-or-sequence-number-changed"+shape, "entries of the flattened file differ from the input's in their trace / sequence numbers only", input, show(lost[s], extra[s]),
			"the same multiset of entries with their addenda")
	}
	return true, len(secs) == 0
}
