// Package c08 holds the oracle for property C08 (merging conserves entries) and
// the helpers shared with the other merge oracles (see shared.go).
package c08

import (
	"fmt"
	"sort"
	"strings"

	"github.com/moov-io/ach"
	"verif/harness/gen"
	. "verif/harness/oracle"
)

// CondKind names the kind of a Conditions value.
func CondKind(c ach.Conditions) string {
	switch {
	case c.MaxLines > 0 && c.MaxDollarAmount > 0:
		return "both"
	case c.MaxLines > 0:
		return "lines"
	case c.MaxDollarAmount > 0:
		return "dollars"
	}
	return "none"
}

// ShapeKey describes the inputs canonically (no seeds, no random values): per
// file its route index and per batch the index of its header class, the number of
// entries and addenda, and how many of its trace numbers also occur under the same
// header elsewhere in the list.
func ShapeKey(in []FileSnap) string {
	routes, classes := map[string]int{}, map[string]int{}
	traces := map[string]int{}
	for _, f := range in {
		for _, b := range f.Batches {
			for _, e := range b.Entries {
				traces[f.Route+b.HeaderID+e.Trace]++
			}
		}
	}
	var sb strings.Builder
	for _, f := range in {
		if _, ok := routes[f.Route]; !ok {
			routes[f.Route] = len(routes)
		}
		fmt.Fprintf(&sb, "R%d[", routes[f.Route])
		for _, b := range f.Batches {
			if _, ok := classes[b.HeaderID]; !ok {
				classes[b.HeaderID] = len(classes)
			}
			lines, coll := 0, 0
			for _, e := range b.Entries {
				lines += e.Lines
				if traces[f.Route+b.HeaderID+e.Trace] > 1 {
					coll++
				}
			}
			sec := ""
			if i := strings.Index(b.HeaderID, "|sec="); i >= 0 {
				sec = b.HeaderID[i+5 : i+8]
			}
			fmt.Fprintf(&sb, "h%d%s:%de%dl%dc ", classes[b.HeaderID], sec, len(b.Entries), lines, coll)
		}
		sb.WriteString("] ")
	}
	return sb.String()
}

// drawConditions picks Conditions around the sizes of the inputs: MaxLines 0 or
// >= 5, MaxDollarAmount 0 or > 0, including values that split inside a batch.
func drawConditions(r *gen.Rand, in []FileSnap, count int) []ach.Conditions {
	plans, order := Plan(in)
	var lines []int
	var dollars []int64
	es := Entries(in)
	lines = append(lines, 5, 6, 7, 8, 10000)
	dollars = append(dollars, 1, ach.NachaFileDebitCreditLimit, ach.NachaFileDebitCreditLimit+1)
	for _, rt := range order {
		p := plans[rt]
		lines = append(lines, p.Lines-1, p.Lines, p.Lines+1, r.Range(5, p.Lines+1), r.Range(5, p.Lines+1))
		dollars = append(dollars, p.Dollars-1, p.Dollars, p.Dollars+1, int64(r.Range(1, int(p.Dollars)+1)))
	}
	for i := 0; i < 4 && len(es) > 0; i++ {
		e := es[r.Intn(len(es))]
		f := es[r.Intn(len(es))]
		dollars = append(dollars, int64(e.Amount), int64(e.Amount)-1, int64(e.Amount)+1, int64(e.Amount)+int64(f.Amount))
		lines = append(lines, 4+e.Lines, 4+e.Lines-1, 4+e.Lines+f.Lines)
	}
	pickL := func() int {
		for {
			if v := lines[r.Intn(len(lines))]; v >= 5 {
				return v
			}
		}
	}
	pickD := func() int64 {
		for {
			if v := dollars[r.Intn(len(dollars))]; v > 0 {
				return v
			}
		}
	}
	out := []ach.Conditions{}
	seen := map[ach.Conditions]bool{}
	for len(out) < count {
		var c ach.Conditions
		switch k := (len(out) + r.Intn(4)) % 4; k {
		case 1:
			c.MaxLines = pickL()
		case 2:
			c.MaxDollarAmount = pickD()
		case 3:
			c.MaxLines, c.MaxDollarAmount = pickL(), pickD()
		}
		if seen[c] && r.Chance(3, 4) {
			continue
		}
		seen[c] = true
		out = append(out, c)
	}
	return out
}

// how the merge is invoked; all three are specified to behave like MergeFilesWith
const (
	viaWith   = "MergeFilesWith"
	viaMerger = "NewMerger(nil).MergeWith"
	viaPlain  = "MergeFiles" // Conditions{MaxLines: 10000}
)

func invoke(via string, files []*ach.File, cond ach.Conditions) (out []*ach.File, err error) {
	defer func() {
		if p := recover(); p != nil {
			err = fmt.Errorf("panic: %v", p)
		}
	}()
	switch via {
	case viaMerger:
		return ach.NewMerger(nil).MergeWith(files, cond)
	case viaPlain:
		return ach.MergeFiles(files)
	}
	return ach.MergeFilesWith(files, cond)
}

func init() {
	Register("C08", &Oracle{
		Rule: "lists of 0..6 valid generator files of the 21 non-IAT non-ADV SEC codes (all categories) drawn with HeaderPool 1..5, Routes 1..3, PresetTraces/CollidingTraces, repeated seeds (identical files, sometimes the same pointer) and header tweaks (company name case, non-identifying fields) x Conditions (none, MaxLines>=5, MaxDollarAmount>0, both; values around entry/batch/file sizes) x every input order (all permutations for <=4 files, identity+reverse+10 sampled otherwise), inputs regenerated from the seed for every run; distinct = distinct (conditions kind, per-file route index, per-batch header class/SEC/entries/lines/colliding traces); non-trivial = at least two files or a binding limit",
		Run:  run,
	})
}

func run(t *T) {
	n := t.Budget(400)
	directed := DirectedSpecs()
	for i := 0; i < n+len(directed); i++ {
		r := t.R.Fork(uint64(i))
		var spec Spec
		if i < len(directed) {
			spec = directed[i]
		} else {
			spec = DrawSpec(r, 6)
		}
		base, err := spec.Files(nil)
		if err != nil {
			if i < len(directed) {
				continue // the tweak does not suit this class (prescribed description, …)
			}
			t.Fail("C08/generator", "generator failed", spec, err.Error(), "a list of valid files")
			continue
		}
		in := SnapAll(base)
		inEntries := Entries(in)
		shape := ShapeKey(in)
		plans, _ := Plan(in)

		var orders [][]int
		nf := len(spec.Seeds)
		if nf <= 4 {
			orders = Permutations(nf)
		} else {
			orders = append(orders, Identity(nf))
			rev := Identity(nf)
			for a, b := 0, nf-1; a < b; a, b = a+1, b-1 {
				rev[a], rev[b] = rev[b], rev[a]
			}
			orders = append(orders, rev)
			for k := 0; k < 10; k++ {
				orders = append(orders, Shuffled(r, nf))
			}
		}

		nconds := 3
		if nf <= 1 {
			nconds = 2
		}
		for ci, cond := range drawConditions(r, in, nconds) {
			via := viaWith
			if cond.MaxLines == 0 && cond.MaxDollarAmount == 0 && r.Chance(1, 3) {
				via = viaPlain // MergeFiles == MergeFilesWith(MaxLines: 10000)
			} else if r.Chance(1, 6) {
				via = viaMerger
			}
			binds := false
			for _, p := range plans {
				if (cond.MaxLines > 0 && p.Lines > cond.MaxLines) || (cond.MaxDollarAmount > 0 && p.Dollars > cond.MaxDollarAmount) {
					binds = true
				}
			}
			if via == viaPlain {
				binds = false
			}
			class := fmt.Sprintf("files=%d/cond=%s", nf, CondKind(cond))
			if binds {
				class += "/binding"
			}
			t.Case(CondKind(cond)+fmt.Sprint(binds)+" "+shape, class, nf >= 2 || binds)
			_ = ci
			for _, order := range orders {
				files, err := spec.Files(order)
				if err != nil {
					t.Fail("C08/generator", "generator failed", spec, err.Error(), "a list of valid files")
					break
				}
				out, err := invoke(via, files, cond)
				if err != nil {
					t.Fail("C08/merge-error/"+ErrClass(err), via+" returned an error for a list of valid files", SpecInput(spec, order, cond), err.Error(), "the merged files")
					continue
				}
				if !checkConserved(t, via, spec, order, cond, inEntries, out) {
					break // one report per (list, conditions) is enough
				}
			}
		}
	}
}

// checkConserved compares the entries of the outputs with those of the inputs.
func checkConserved(t *T, via string, spec Spec, order []int, cond ach.Conditions, in []Entry, out []*ach.File) bool {
	outSnap := SnapAll(out)
	ok := true
	where := "identity order"
	if !sort.IntsAreSorted(order) {
		where = "permuted order"
	}
	diffs := CompareEntries(in, Entries(outSnap))
	seen := map[string]bool{}
	for _, d := range diffs {
		if seen[d.Kind] {
			continue
		}
		seen[d.Kind] = true
		ok = false
		sig := "C08/entry-" + d.Kind
		what := "the multiset of entries across the outputs differs from the inputs"
		if d.Kind == "route" {
			sig = "C08/route/entry-in-file-of-other-route"
			what = "an entry ended up in an output file of another origin/destination"
		}
		t.Fail(sig, what+" ("+via+", "+where+")", SpecInput(spec, order, cond), d.Detail, "every input entry exactly once, unchanged, in a file of its own origin/destination")
	}
	if !ok {
		return false // the route of an entry is only meaningful once the entries themselves agree
	}
	// entries of different origin/destination never share an output file: every
	// entry of an output file must come from an input with the output's own route.
	inRoutes := map[string]map[string]bool{}
	for _, e := range in {
		if inRoutes[e.Key()] == nil {
			inRoutes[e.Key()] = map[string]bool{}
		}
		inRoutes[e.Key()][e.Route] = true
	}
	for _, f := range outSnap {
		srcRoutes := map[string]bool{}
		for _, b := range f.Batches {
			for _, e := range b.Entries {
				rs := inRoutes[e.Key()]
				if len(rs) == 1 { // unambiguous origin
					for rt := range rs {
						srcRoutes[rt] = true
					}
				}
			}
		}
		if len(srcRoutes) > 1 {
			var rs []string
			for rt := range srcRoutes {
				rs = append(rs, rt)
			}
			sort.Strings(rs)
			ok = false
			t.Fail("C08/route/mixed-output-file", "one output file holds entries of inputs with different origin/destination ("+via+", "+where+")",
				SpecInput(spec, order, cond), fmt.Sprintf("output file routed %s holds entries from routes %v", f.Route, rs), "one origin/destination pair per output file")
		}
	}
	return ok
}
