package c08

// Helpers shared by the merge oracles C08, C09 and C10 (c09 and c10 import this
// package): reproducible input lists, order-insensitive snapshots of files,
// multiset comparison, limit checks and stable error classes.

import (
	"bytes"
	"errors"
	"fmt"
	"sort"
	"strings"
	"unicode"

	"github.com/moov-io/ach"
	"verif/harness/gen"
)

// MergeSECs are the 21 Batcher SEC codes that are neither IAT nor ADV.
func MergeSECs() []string {
	var out []string
	for _, s := range gen.AllSECs() {
		if s != ach.IAT && s != ach.ADV {
			out = append(out, s)
		}
	}
	return out
}

// Tweaks applied to a generated file after generation.  They only touch batch
// header fields that take no part in any control total, so the file stays valid
// (Spec.Files re-validates).
const (
	TweakNone          = 0
	TweakUpperName     = 1 // CompanyName upper-cased: still Equal (case-insensitive) to the pool header
	TweakLowerName     = 2 // CompanyName lower-cased
	TweakDiscretionary = 3 // CompanyDiscretionaryData changed: not an identifying field
	TweakDescDate      = 4 // CompanyDescriptiveDate changed: not an identifying field
	TweakDescription   = 5 // CompanyEntryDescription changed: an identifying field, the header is no longer Equal
	TweakEffectiveDate = 6 // EffectiveEntryDate changed: identifying
	TweakCompanyID     = 7 // CompanyIdentification changed in header and control: identifying
	// TweakBoundaryShift: one character moved across the CompanyName / CompanyIdentification boundary ("ACME 1" +
	// "231380104" -> "ACME 12" + "31380104"): both identifying fields differ although their concatenation is the same
	TweakBoundaryShift = 8
	numTweaks          = 9
)

// Spec describes a list of input files reproducibly.  Merging shares entries
// with (and mutates) its inputs, so every run regenerates the files from here.
type Spec struct {
	Opts   gen.Opts `json:"opts"`
	Seeds  []uint64 `json:"seeds"`  // one per file; equal seeds = identical files
	Tweaks []int    `json:"tweaks"` // one per file
	// Reroute, one per file: 0 keep the pool route; 1 replace the destination, 2 replace
	// the origin by a fixed other routing number, so that lists contain files
	// that differ in the origin only or in the destination only.
	Reroute []int `json:"reroute"`
	// SamePointer: files with equal seed and tweak are passed as the very same *ach.File.
	SamePointer bool `json:"same_pointer,omitempty"`
	// NeedOpts: every file gets a destination with a wrong check digit and carries
	// ValidateOpts{BypassDestinationValidation}: it is valid only under the options it carries.
	NeedOpts bool `json:"need_opts,omitempty"`
	// ShortTraces: trace numbers are replaced by their sequence part without leading zeros ("1", "27"), valid only
	// under CustomTraceNumbers + BypassOriginValidation, which the files then carry.
	ShortTraces bool `json:"short_traces,omitempty"`
	// FileOpts, one per file (missing = 0): options only this file carries, so that lists mix files with nil options,
	// with non-nil options that lack a flag and with options another file's entries depend on.
	// 1: non-nil empty ValidateOpts; 2: short trace numbers (as ShortTraces, this file only);
	// 3: one forward entry with amount zero under AllowZeroEntryAmount; 4: non-nil options with an unrelated flag;
	// 5: 15 digit trace numbers foreign to the ODFI under CustomTraceNumbers alone.
	FileOpts []int `json:"file_opts,omitempty"`
	// ShiftTraces, one per file (missing = 0): k > 0 adds k*100000 to the sequence part of every trace number (batches
	// rebuilt), so that files with equal headers do not collide.
	ShiftTraces []int `json:"shift_traces,omitempty"`
}

func (s Spec) shift(i int) int {
	if i < len(s.ShiftTraces) {
		return s.ShiftTraces[i]
	}
	return 0
}

func shiftTraces(f *ach.File, k int) error {
	for _, b := range f.Batches {
		for _, e := range b.GetEntries() {
			t := e.TraceNumber
			if len(t) != 15 {
				return fmt.Errorf("trace number %q", t)
			}
			var seq int
			if _, err := fmt.Sscanf(t[8:], "%d", &seq); err != nil {
				return err
			}
			e.TraceNumber = fmt.Sprintf("%s%07d", t[:8], (seq+k*100000)%10000000)
		}
		if err := b.Create(); err != nil {
			return err
		}
	}
	if err := f.Create(); err != nil {
		return err
	}
	return f.Validate()
}

func (s Spec) fileOpt(i int) int {
	if i < len(s.FileOpts) {
		return s.FileOpts[i]
	}
	return 0
}

// setAllValidation stores opts with the file and every batch (what the Reader does for a file read under them)
func setAllValidation(f *ach.File, opts *ach.ValidateOpts) {
	f.SetValidation(opts)
	for _, b := range f.Batches {
		b.SetValidation(opts)
	}
	for i := range f.IATBatches {
		f.IATBatches[i].SetValidation(opts)
	}
}

// zeroAmount gives one forward entry of the file the amount zero and lets the file carry AllowZeroEntryAmount;
// false if the file has no such entry or does not validate afterwards (the caller then regenerates it).
func zeroAmount(f *ach.File) bool {
	if f.GetValidation() != nil {
		return false
	}
	for _, b := range f.Batches {
		sec := b.GetHeader().StandardEntryClassCode
		if sec == ach.ADV || sec == ach.COR || sec == ach.ENR || sec == ach.DNE {
			continue
		}
		if strings.EqualFold(strings.TrimSpace(b.GetHeader().CompanyEntryDescription), "PRENOTE") {
			continue
		}
		for _, e := range b.GetEntries() {
			if e.Amount <= 0 || e.Category != ach.CategoryForward {
				continue
			}
			switch e.TransactionCode % 10 {
			case 2, 7: // live credit / debit
			default:
				continue
			}
			opts := &ach.ValidateOpts{AllowZeroEntryAmount: true}
			setAllValidation(f, opts)
			e.Amount = 0
			if b.Create() != nil || f.Create() != nil || f.Validate() != nil {
				return false
			}
			return true
		}
	}
	return false
}

// Files builds the files in the given order (a permutation of 0..n-1; nil = identity).
func (s Spec) Files(order []int) ([]*ach.File, error) {
	n := len(s.Seeds)
	if order == nil {
		order = Identity(n)
	}
	out := make([]*ach.File, 0, n)
	made := map[string]*ach.File{}
	for _, i := range order {
		k := fmt.Sprintf("%d/%d/%d/%d/%d", s.Seeds[i], s.Tweaks[i], s.reroute(i), s.fileOpt(i), s.shift(i))
		if s.SamePointer && made[k] != nil {
			out = append(out, made[k])
			continue
		}
		f, err := gen.File(gen.NewRand(s.Seeds[i]), s.Opts)
		if err != nil {
			return nil, err
		}
		if err := ApplyTweak(f, s.Tweaks[i]); err != nil {
			return nil, err
		}
		if err := ApplyReroute(f, s.reroute(i)); err != nil {
			return nil, err
		}
		if k := s.shift(i); k > 0 {
			if err := shiftTraces(f, k); err != nil {
				return nil, fmt.Errorf("shifting trace numbers: %w", err)
			}
		}
		if s.NeedOpts {
			// a destination whose check digit is wrong: the file is valid only under the ValidateOpts it carries
			d := f.Header.ImmediateDestination
			if len(d) == 9 && d[8] >= '0' && d[8] <= '9' {
				f.Header.ImmediateDestination = d[:8] + string(rune('0'+(d[8]-'0'+1)%10))
				f.SetValidation(&ach.ValidateOpts{BypassDestinationValidation: true})
				if err := f.Validate(); err != nil {
					return nil, fmt.Errorf("NeedOpts made the file invalid: %w", err)
				}
			}
		}
		if s.ShortTraces {
			shortTraces(f)
		}
		switch s.fileOpt(i) {
		case 1:
			if f.GetValidation() == nil {
				setAllValidation(f, &ach.ValidateOpts{})
			}
		case 2:
			if !s.ShortTraces {
				shortTraces(f)
			}
		case 3:
			if !zeroAmount(f) {
				// start again from the generator: the attempt may have left the file half changed
				if f, err = gen.File(gen.NewRand(s.Seeds[i]), s.Opts); err != nil {
					return nil, err
				}
				if err := ApplyTweak(f, s.Tweaks[i]); err != nil {
					return nil, err
				}
				if err := ApplyReroute(f, s.reroute(i)); err != nil {
					return nil, err
				}
			}
		case 5:
			if !s.ShortTraces {
				foreignTraces(f)
			}
		case 4:
			if f.GetValidation() == nil {
				setAllValidation(f, &ach.ValidateOpts{AllowUnorderedBatchNumbers: true})
				if f.Validate() != nil {
					setAllValidation(f, nil)
				}
			}
		}
		made[k] = f
		out = append(out, f)
	}
	return out, nil
}

// shortTraces rewrites every standard entry's trace number to its sequence part without leading zeros and lets the
// file carry the options under which that is valid; undone if the file does not validate then.
func shortTraces(f *ach.File) {
	rewriteTraces(f, func(t string) string {
		t = strings.TrimLeft(t[8:], "0")
		if t == "" {
			t = "0"
		}
		return t
	}, true)
}

// foreignTraces gives every standard entry a 15 digit trace number that does not start with the batch's ODFI, valid
// only under CustomTraceNumbers, which the file then carries (and nothing else).
func foreignTraces(f *ach.File) {
	rewriteTraces(f, func(t string) string { return "55500000" + t[8:] }, false)
}

func rewriteTraces(f *ach.File, fn func(string) string, bypassOrigin bool) {
	type sv struct {
		e *ach.EntryDetail
		t string
	}
	var old []sv
	for _, b := range f.Batches {
		if b.GetHeader().StandardEntryClassCode == ach.ADV {
			return
		}
		for _, e := range b.GetEntries() {
			if len(e.Addenda05) > 0 || len(e.TraceNumber) != 15 {
				return // addenda sequence numbers are tied to the trace number: leave such files alone
			}
		}
	}
	if len(f.IATBatches) > 0 {
		return
	}
	prevOpts := f.GetValidation()
	for _, b := range f.Batches {
		for _, e := range b.GetEntries() {
			old = append(old, sv{e, e.TraceNumber})
			e.TraceNumber = fn(e.TraceNumber)
		}
	}
	opts := &ach.ValidateOpts{CustomTraceNumbers: true, BypassOriginValidation: bypassOrigin}
	if prevOpts != nil {
		o := *prevOpts
		o.CustomTraceNumbers = true
		o.BypassOriginValidation = o.BypassOriginValidation || bypassOrigin
		opts = &o
	}
	f.SetValidation(opts)
	for _, b := range f.Batches {
		b.SetValidation(opts) // what the Reader does for a file read under these options
	}
	if f.Validate() != nil {
		for _, x := range old {
			x.e.TraceNumber = x.t
		}
		f.SetValidation(prevOpts)
		for _, b := range f.Batches {
			b.SetValidation(prevOpts)
		}
	}
}

func (s Spec) reroute(i int) int {
	if i < len(s.Reroute) {
		return s.Reroute[i]
	}
	return 0
}

// ApplyReroute replaces the destination (1) or the origin (2) of the file header;
// neither takes part in a control total.
func ApplyReroute(f *ach.File, how int) error {
	switch how {
	case 0:
		return nil
	case 1:
		f.Header.ImmediateDestination = "231380104"
	case 2:
		f.Header.ImmediateOrigin = "121042882"
	}
	if err := f.Validate(); err != nil {
		return fmt.Errorf("reroute %d made the file invalid: %w", how, err)
	}
	return nil
}

// ApplyTweak modifies batch header fields outside every control total and re-validates.
func ApplyTweak(f *ach.File, tweak int) error {
	if tweak == TweakNone {
		return nil
	}
	for _, b := range f.Batches {
		bh := b.GetHeader()
		switch tweak {
		case TweakUpperName:
			bh.CompanyName = strings.ToUpper(bh.CompanyName)
		case TweakLowerName:
			bh.CompanyName = strings.ToLower(bh.CompanyName)
		case TweakDiscretionary:
			if bh.CompanyDiscretionaryData == "TWEAKED" {
				bh.CompanyDiscretionaryData = ""
			} else {
				bh.CompanyDiscretionaryData = "TWEAKED"
			}
		case TweakDescDate:
			if bh.CompanyDescriptiveDate == "TWK" {
				bh.CompanyDescriptiveDate = ""
			} else {
				bh.CompanyDescriptiveDate = "TWK"
			}
		case TweakDescription:
			// RCK and ENR prescribe the description; PRENOTE batches are recognised by it
			if bh.StandardEntryClassCode != ach.RCK && bh.StandardEntryClassCode != ach.ENR && !strings.EqualFold(bh.CompanyEntryDescription, "PRENOTE") {
				bh.CompanyEntryDescription = "TWKDESC"
			}
		case TweakEffectiveDate:
			if bh.EffectiveEntryDate == "300102" {
				bh.EffectiveEntryDate = "300103"
			} else {
				bh.EffectiveEntryDate = "300102"
			}
		case TweakBoundaryShift:
			name, id := bh.CompanyName, bh.CompanyIdentification
			ascii := func(s string) bool {
				for _, c := range s {
					if c >= 0x80 {
						return false
					}
				}
				return true
			}
			if !ascii(name) || !ascii(id) {
				break
			}
			switch {
			case len(name) < 16 && len(id) >= 2 && id[0] != ' ' && id[1] != ' ':
				name, id = name+id[:1], id[1:]
			case len(name) >= 2 && len(id) < 10 && name[len(name)-1] != ' ' && name[len(name)-2] != ' ':
				name, id = name[:len(name)-1], name[len(name)-1:]+id
			}
			bh.CompanyName, bh.CompanyIdentification = name, id
			if bc := b.GetControl(); bc != nil {
				bc.CompanyIdentification = id
			}
		case TweakCompanyID:
			id := "7" + strings.Repeat("0", 8)
			if bh.CompanyIdentification == id {
				id = "8" + strings.Repeat("0", 8)
			}
			bh.CompanyIdentification = id
			if bc := b.GetControl(); bc != nil {
				bc.CompanyIdentification = id
			}
		}
	}
	if err := f.Validate(); err != nil {
		return fmt.Errorf("tweak %d made the file invalid: %w", tweak, err)
	}
	return nil
}

func Identity(n int) []int {
	p := make([]int, n)
	for i := range p {
		p[i] = i
	}
	return p
}

// Permutations returns every permutation of 0..n-1 (n <= 4 in practice), identity first.
func Permutations(n int) [][]int {
	var out [][]int
	var rec func(cur []int, used []bool)
	rec = func(cur []int, used []bool) {
		if len(cur) == n {
			out = append(out, append([]int(nil), cur...))
			return
		}
		for i := 0; i < n; i++ {
			if !used[i] {
				used[i] = true
				rec(append(cur, i), used)
				used[i] = false
			}
		}
	}
	rec(nil, make([]bool, n))
	return out
}

// Shuffled returns a seeded permutation of 0..n-1.
func Shuffled(r *gen.Rand, n int) []int {
	p := Identity(n)
	for i := n - 1; i > 0; i-- {
		j := r.Intn(i + 1)
		p[i], p[j] = p[j], p[i]
	}
	return p
}

// DrawSpec draws a list of 0..maxFiles valid non-IAT non-ADV files whose batch
// headers overlap (HeaderPool), whose trace numbers collide (PresetTraces +
// CollidingTraces), which repeat (equal seeds) and which use 1..3 routing pairs.
// DirectedSpecs: for every mergeable SEC code and every header tweak, two files of that class alone with one shared
// pool header and one route, distinct traces, the second file tweaked: identifying tweaks must keep the batches apart,
// the others must let them share a batch - whatever the class-specific rendering of the header is.
func DirectedSpecs() []Spec {
	var out []Spec
	for _, sec := range MergeSECs() {
		for tw := 1; tw < numTweaks; tw++ {
			o := gen.Opts{SECs: []string{sec}, HeaderPool: 1, Routes: 1, PresetTraces: true, MinBatches: 1, MaxBatches: 1, MaxEntries: 2}
			h := uint64(len(out))
			out = append(out, Spec{Opts: o, Seeds: []uint64{1000 + 2*h, 1001 + 2*h}, Tweaks: []int{TweakNone, tw}, Reroute: []int{0, 0}, ShiftTraces: []int{0, 1}})
		}
	}
	return out
}

func DrawSpec(r *gen.Rand, maxFiles int) Spec {
	o := gen.Opts{
		SECs:            MergeSECs(),
		HeaderPool:      r.Range(1, 5),
		Routes:          r.Range(1, 3),
		PresetTraces:    !r.Chance(1, 8),
		CollidingTraces: !r.Chance(1, 6),
		MinBatches:      1,
		MaxBatches:      r.Range(1, 4),
		MaxEntries:      r.Range(1, 5),
	}
	switch r.Intn(4) {
	case 0:
		o.Categories = gen.AllCategories()
	case 1:
		o.Categories = []string{ach.CategoryForward, ach.CategoryReturn}
	case 2:
		// entries of every category next to each other, in a small SEC set: every kind of addenda record (02, 05, 98,
		// refused 98, 99, dishonored, contested) takes part in the line budget of the merge
		if r.Chance(1, 2) {
			o.Categories = gen.AllCategories()
			o.SECs = [][]string{{"COR"}, {"COR", "PPD"}, {"COR", "CTX", "POS"}, {"CTX", "POS", "MTE"}}[r.Intn(4)]
		}
	}
	switch r.Intn(5) {
	case 0:
		o.MaxAddenda = -1
	case 1:
		o.MaxAddenda = 4
	}
	if r.Chance(1, 5) {
		// a small SEC set makes the header pool denser in addenda-carrying classes
		o.SECs = [][]string{{"PPD", "CCD"}, {"CTX"}, {"WEB", "TEL", "PPD"}, {"CTX", "PPD", "COR"}, {"POS", "SHR", "MTE"}}[r.Intn(5)]
	}
	if r.Chance(1, 6) {
		// one SEC code alone: every batch of every file is of that class, so identifying-field tweaks meet the
		// class-specific renderings of the header (ENR blanks the effective entry date column, …)
		all := MergeSECs()
		o.SECs = []string{all[r.Intn(len(all))]}
	}
	if r.Chance(1, 8) {
		o.Offset = true
	}
	if r.Chance(1, 10) {
		o.FullWidth = true
	}
	n := 0
	switch x := r.Intn(20); {
	case x == 0:
		n = 0
	case x == 1:
		n = 1
	default:
		n = r.Range(2, maxFiles)
	}
	s := Spec{Opts: o}
	for i := 0; i < n; i++ {
		seed := r.Uint64() >> 1
		tweak := TweakNone
		if i > 0 && r.Chance(1, 4) {
			seed = s.Seeds[r.Intn(i)] // a repeated file
		}
		if r.Chance(1, 4) {
			tweak = r.Range(1, numTweaks-1)
		}
		reroute := 0
		if r.Chance(1, 4) {
			reroute = r.Range(1, 2)
		}
		s.Seeds = append(s.Seeds, seed)
		s.Tweaks = append(s.Tweaks, tweak)
		s.Reroute = append(s.Reroute, reroute)
	}
	s.SamePointer = n >= 2 && r.Chance(1, 10)
	s.NeedOpts = r.Chance(1, 6)
	s.ShortTraces = r.Chance(1, 6)
	if !s.NeedOpts && r.Chance(1, 3) {
		for i := 0; i < n; i++ {
			fo := 0
			if r.Chance(2, 3) {
				fo = r.Range(1, 5)
			}
			s.FileOpts = append(s.FileOpts, fo)
		}
	}
	return s
}

// ---- snapshots ---------------------------------------------------------------

// Entry is what must be conserved of one entry by merging.
type Entry struct {
	Route    string // "origin>destination" of the file that holds it
	HeaderID string // the fields BatchHeader.Equal compares, company name case-folded
	Trace    string
	Amount   int
	TxCode   int
	RDFI     string
	Account  string
	Lines    int    // 1 + addenda records
	Record   string // the entry detail record
	Addenda  string // the addenda records, newline separated
}

// Key identifies the entry in multisets (the route is kept apart).
func (e Entry) Key() string { return e.HeaderID + "\x1f" + e.Record + "\x1f" + e.Addenda }

type BatchSnap struct {
	Number        int
	ControlNumber int
	HeaderID      string
	Entries       []Entry
}

type FileSnap struct {
	Route   string
	Batches []BatchSnap
}

// Fold maps a string to a canonical representative under the relation
// strings.EqualFold decides (simple Unicode case folding).
func Fold(s string) string {
	return strings.Map(func(r rune) rune {
		m := r
		for f := unicode.SimpleFold(r); f != r; f = unicode.SimpleFold(f) {
			if f < m {
				m = f
			}
		}
		return m
	}, s)
}

// HeaderID renders the fields BatchHeader.Equal compares.
func HeaderID(bh *ach.BatchHeader) string {
	return fmt.Sprintf("scc=%d|name=%s|id=%s|sec=%s|desc=%s|date=%s|odfi=%s", bh.ServiceClassCode, Fold(bh.CompanyName),
		bh.CompanyIdentification, bh.StandardEntryClassCode, bh.CompanyEntryDescription, bh.EffectiveEntryDate, bh.ODFIIdentification)
}

func RouteOf(f *ach.File) string {
	return f.Header.ImmediateOrigin + ">" + f.Header.ImmediateDestination
}

func snapEntry(route, hid string, e *ach.EntryDetail) Entry {
	var ad []string
	if e.Addenda02 != nil {
		ad = append(ad, e.Addenda02.String())
	}
	for _, a := range e.Addenda05 {
		if a != nil {
			ad = append(ad, a.String())
		}
	}
	if e.Addenda98 != nil {
		ad = append(ad, e.Addenda98.String())
	}
	if e.Addenda98Refused != nil {
		ad = append(ad, e.Addenda98Refused.String())
	}
	if e.Addenda99 != nil {
		ad = append(ad, e.Addenda99.String())
	}
	if e.Addenda99Dishonored != nil {
		ad = append(ad, e.Addenda99Dishonored.String())
	}
	if e.Addenda99Contested != nil {
		ad = append(ad, e.Addenda99Contested.String())
	}
	return Entry{Route: route, HeaderID: hid, Trace: e.TraceNumber, Amount: e.Amount, TxCode: e.TransactionCode,
		RDFI: e.RDFIIdentification + e.CheckDigit, Account: e.DFIAccountNumber, Lines: 1 + len(ad),
		Record: e.String(), Addenda: strings.Join(ad, "\n")}
}

// Snap records a file's entries with their batch structure.
func Snap(f *ach.File) FileSnap {
	s := FileSnap{Route: RouteOf(f)}
	for _, b := range f.Batches {
		bh := b.GetHeader()
		bs := BatchSnap{Number: bh.BatchNumber, HeaderID: HeaderID(bh)}
		if bc := b.GetControl(); bc != nil {
			bs.ControlNumber = bc.BatchNumber
		}
		for _, e := range b.GetEntries() {
			bs.Entries = append(bs.Entries, snapEntry(s.Route, bs.HeaderID, e))
		}
		s.Batches = append(s.Batches, bs)
	}
	return s
}

func SnapAll(fs []*ach.File) []FileSnap {
	out := make([]FileSnap, len(fs))
	for i, f := range fs {
		out[i] = Snap(f)
	}
	return out
}

// Entries lists all entries of the snapshots.
func Entries(fs []FileSnap) []Entry {
	var out []Entry
	for _, f := range fs {
		for _, b := range f.Batches {
			out = append(out, b.Entries...)
		}
	}
	return out
}

func (f FileSnap) NumEntries() int {
	n := 0
	for _, b := range f.Batches {
		n += len(b.Entries)
	}
	return n
}

// ---- multisets -----------------------------------------------------------------

// Diff is one discrepancy between the entries that went in and those that came out.
type Diff struct {
	Kind   string // "lost", "duplicated", "invented", "altered/<component>", "route"
	Detail string
}

var headerParts = []string{"service-class", "company-name", "company-identification", "sec", "entry-description", "effective-date", "odfi"}

func alteredComponent(in, out Entry) string {
	if in.HeaderID != out.HeaderID {
		a, b := strings.Split(in.HeaderID, "|"), strings.Split(out.HeaderID, "|")
		for i := range a {
			if i < len(b) && a[i] != b[i] && i < len(headerParts) {
				return "header-" + headerParts[i]
			}
		}
		return "header"
	}
	switch {
	case in.Amount != out.Amount:
		return "amount"
	case in.Account != out.Account:
		return "account"
	case in.RDFI != out.RDFI:
		return "rdfi"
	case in.TxCode != out.TxCode:
		return "transaction-code"
	case in.Record != out.Record:
		return "entry-record"
	case in.Addenda != out.Addenda:
		return "addenda"
	}
	return "unknown"
}

// CompareEntries compares the multiset of entries of in and out, first ignoring
// the route, then per route.  The result is empty iff both agree.
func CompareEntries(in, out []Entry) []Diff {
	var diffs []Diff
	type slot struct {
		in, out []Entry
	}
	bag := map[string]*slot{}
	var keys []string
	get := func(k string) *slot {
		if bag[k] == nil {
			bag[k] = &slot{}
			keys = append(keys, k)
		}
		return bag[k]
	}
	for _, e := range in {
		s := get(e.Key())
		s.in = append(s.in, e)
	}
	for _, e := range out {
		s := get(e.Key())
		s.out = append(s.out, e)
	}
	sort.Strings(keys)
	var lost, extra []Entry
	for _, k := range keys {
		s := bag[k]
		switch {
		case len(s.out) < len(s.in):
			for i := len(s.out); i < len(s.in); i++ {
				lost = append(lost, s.in[i])
			}
		case len(s.out) > len(s.in) && len(s.in) > 0:
			diffs = append(diffs, Diff{"duplicated", fmt.Sprintf("entry %q (trace %s) occurs %d times in the inputs and %d times in the outputs", s.in[0].Record, s.in[0].Trace, len(s.in), len(s.out))})
		case len(s.out) > len(s.in):
			extra = append(extra, s.out...)
		}
	}
	// pair an unexplained output entry with a lost input entry of the same trace (or, failing that, the same account): altered
	usedLost := make([]bool, len(lost))
	for _, x := range extra {
		match := -1
		for pass := 0; pass < 2 && match < 0; pass++ {
			for i, l := range lost {
				if usedLost[i] {
					continue
				}
				if (pass == 0 && l.Trace == x.Trace && l.Route == x.Route) || (pass == 1 && l.Account == x.Account && l.Amount == x.Amount) {
					match = i
					break
				}
			}
		}
		if match >= 0 {
			usedLost[match] = true
			diffs = append(diffs, Diff{"altered/" + alteredComponent(lost[match], x), fmt.Sprintf("input entry %q under [%s] came out as %q under [%s]; addenda in %q out %q",
				lost[match].Record, lost[match].HeaderID, x.Record, x.HeaderID, lost[match].Addenda, x.Addenda)})
		} else {
			diffs = append(diffs, Diff{"invented", fmt.Sprintf("output entry %q under [%s] (trace %s) does not occur in any input", x.Record, x.HeaderID, x.Trace)})
		}
	}
	for i, l := range lost {
		if !usedLost[i] {
			diffs = append(diffs, Diff{"lost", fmt.Sprintf("input entry %q under [%s] (trace %s, route %s) is in no output", l.Record, l.HeaderID, l.Trace, l.Route)})
		}
	}
	if len(diffs) > 0 {
		return diffs
	}
	// same global multiset: now per route
	perRoute := map[string]int{}
	for _, e := range in {
		perRoute[e.Route+"\x1e"+e.Key()]++
	}
	for _, e := range out {
		perRoute[e.Route+"\x1e"+e.Key()]--
	}
	var ks []string
	for k, v := range perRoute {
		if v != 0 {
			ks = append(ks, k)
		}
	}
	sort.Strings(ks)
	for _, k := range ks {
		if perRoute[k] < 0 {
			p := strings.SplitN(k, "\x1e", 2)
			diffs = append(diffs, Diff{"route", fmt.Sprintf("an output file routed %s holds entry %q which no input of that route contains", p[0], strings.SplitN(p[1], "\x1f", 3)[1])})
		}
	}
	return diffs
}

// ---- sizes and limits ------------------------------------------------------------

var filler = strings.Repeat("9", 94)

// Render writes the file with ach.Writer; bypass skips the writer's own validation.
func Render(f *ach.File, bypass bool) (text string, err error) {
	defer func() {
		if p := recover(); p != nil {
			err = fmt.Errorf("writer panicked: %v", p)
		}
	}()
	var buf bytes.Buffer
	w := ach.NewWriter(&buf)
	w.BypassValidation = bypass
	if err := w.Write(f); err != nil {
		return "", err
	}
	return buf.String(), nil
}

// RecordCount counts the records of the written text, 9-filler lines excluded.
func RecordCount(text string) int {
	n := 0
	for _, line := range strings.Split(text, "\n") {
		line = strings.TrimRight(line, "\r")
		if line == "" || line == filler {
			continue
		}
		n++
	}
	return n
}

// Amounts sums the entry amounts of a snapshot.
func (f FileSnap) Amounts() int64 {
	var s int64
	for _, b := range f.Batches {
		for _, e := range b.Entries {
			s += int64(e.Amount)
		}
	}
	return s
}

// LimitViolation checks one output file against the conditions as C09 states
// them: record count (filler excluded, from the written text) <= MaxLines and sum
// of entry amounts <= MaxDollarAmount, unless the file holds a single entry
// that alone exceeds the limit.  It returns "" or ("lines"|"dollars", description).
func LimitViolation(f *ach.File, snap FileSnap, cond ach.Conditions) (which, detail string) {
	single := snap.NumEntries() == 1
	if cond.MaxLines > 0 {
		text, err := Render(f, true)
		if err == nil {
			n := RecordCount(text)
			if n > cond.MaxLines {
				// a file of one entry has 4 + 1 + addenda records
				if !(single && 4+Entries([]FileSnap{snap})[0].Lines > cond.MaxLines) {
					return "lines", fmt.Sprintf("%d records (filler excluded) with MaxLines=%d, %d entries", n, cond.MaxLines, snap.NumEntries())
				}
			}
		}
	}
	if cond.MaxDollarAmount > 0 {
		if s := snap.Amounts(); s > cond.MaxDollarAmount {
			if !(single && int64(Entries([]FileSnap{snap})[0].Amount) > cond.MaxDollarAmount) {
				return "dollars", fmt.Sprintf("entry amounts sum to %d with MaxDollarAmount=%d, %d entries", s, cond.MaxDollarAmount, snap.NumEntries())
			}
		}
	}
	return "", ""
}

// ---- expected structure of an unlimited merge ---------------------------------------

// RoutePlan is what the inputs of one origin/destination pair amount to.
type RoutePlan struct {
	Route   string
	Entries int
	Lines   int   // records of the single merged file: 2 + 2*batches + entries + addenda
	Dollars int64 // sum of entry amounts
	// Classes: per identifying header, the multiplicity of every trace number.
	Classes map[string]map[string]int
	// MinBatches: per header, the largest multiplicity of a trace number = the
	// fewest batches that keep trace numbers unique inside each batch.
	MinBatches map[string]int
}

// Plan computes, from the inputs alone, the size of the merged content per route.
func Plan(in []FileSnap) (map[string]*RoutePlan, []string) {
	plans := map[string]*RoutePlan{}
	var order []string
	for _, f := range in {
		p := plans[f.Route]
		if p == nil {
			p = &RoutePlan{Route: f.Route, Classes: map[string]map[string]int{}, MinBatches: map[string]int{}}
			plans[f.Route] = p
			order = append(order, f.Route)
		}
		for _, b := range f.Batches {
			for _, e := range b.Entries {
				if p.Classes[b.HeaderID] == nil {
					p.Classes[b.HeaderID] = map[string]int{}
				}
				p.Classes[b.HeaderID][e.Trace]++
				if p.Classes[b.HeaderID][e.Trace] > p.MinBatches[b.HeaderID] {
					p.MinBatches[b.HeaderID] = p.Classes[b.HeaderID][e.Trace]
				}
				p.Entries++
				p.Lines += e.Lines
				p.Dollars += int64(e.Amount)
			}
		}
	}
	for _, p := range plans {
		p.Lines += 2
		for _, n := range p.MinBatches {
			p.Lines += 2 * n
		}
	}
	return plans, order
}

// ---- error classes ---------------------------------------------------------------------

// ErrClass gives a short stable class for an error (no numbers, no values).
func ErrClass(err error) string {
	if err == nil {
		return "nil"
	}
	var be *ach.BatchError
	if errors.As(err, &be) {
		inner := ""
		if be.Err != nil {
			inner = be.Err.Error()
		}
		return Slug("batch " + be.FieldName + " " + inner)
	}
	var fe *ach.FieldError
	if errors.As(err, &fe) {
		inner := fe.Msg
		if fe.Err != nil {
			inner = fe.Err.Error()
		}
		return Slug("field " + fe.FieldName + " " + inner)
	}
	var fle ach.FileError
	if errors.As(err, &fle) {
		return Slug("file " + fle.FieldName + " " + fle.Msg)
	}
	var flp *ach.FileError
	if errors.As(err, &flp) {
		return Slug("file " + flp.FieldName + " " + flp.Msg)
	}
	return Slug(err.Error())
}

// Slug lower-cases, replaces digit runs by N and everything else non-alphabetic by '-'.
func Slug(s string) string {
	var b strings.Builder
	last := byte('-')
	for _, r := range strings.ToLower(s) {
		var c byte
		switch {
		case r >= 'a' && r <= 'z':
			c = byte(r)
		case r >= '0' && r <= '9':
			c = 'N'
		default:
			c = '-'
		}
		if (c == '-' || c == 'N') && c == last {
			continue
		}
		b.WriteByte(c)
		last = c
		if b.Len() >= 70 {
			break
		}
	}
	return strings.Trim(b.String(), "-")
}

// SpecInput renders a spec and the files it generates for a failure report.
func SpecInput(s Spec, order []int, cond ach.Conditions) map[string]any {
	in := map[string]any{"spec": s, "order": order, "conditions": cond,
		"replay": "files[i] = gen.File(gen.NewRand(spec.seeds[order[i]]), spec.opts) + c08.ApplyTweak(tweaks[order[i]]) + c08.ApplyReroute(reroute[order[i]]); ach.MergeFilesWith(files, conditions)"}
	files, err := s.Files(order)
	if err != nil {
		in["generator_error"] = err.Error()
		return in
	}
	var fs []any
	for i, f := range files {
		if i >= 6 {
			break
		}
		text, _ := Render(f, true)
		fs = append(fs, map[string]any{"describe": gen.Describe(f), "route": RouteOf(f), "nacha_text": text})
	}
	in["files"] = fs
	return in
}
