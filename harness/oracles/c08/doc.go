// Package c08 holds the oracle for property C08.
package c08
