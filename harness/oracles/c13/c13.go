package c13

import (
	"fmt"
	"time"

	"github.com/moov-io/ach"
	"verif/harness/gen"
	. "verif/harness/oracle"
)

type entrySnap struct {
	code           int
	amount         int
	account, trace string
}

func dirOf(code int) string {
	e := ach.EntryDetail{TransactionCode: code}
	return e.CreditOrDebit()
}

func init() {
	Register("C13", &Oracle{
		Rule: "generator files of PPD/CCD/CTX/WEB forward batches (every service class; codes 53/54 excluded); distinct = distinct multiset of (SEC, service class, transaction codes) per file; non-trivial = file has at least one entry",
		Run: func(t *T) {
			n := t.Budget(400)
			// the requested date is the calendar date of the time the caller passes, in the caller's location: cover zones
			// east and west of UTC at instants whose UTC date is the next / the previous day
			dates := []time.Time{
				time.Date(2024, 3, 15, 10, 30, 0, 0, time.UTC),
				time.Date(2024, 3, 15, 20, 30, 0, 0, time.FixedZone("UTC-5", -5*3600)),
				time.Date(2024, 3, 15, 6, 15, 0, 0, time.FixedZone("UTC+9", 9*3600)),
				time.Date(2024, 12, 31, 23, 59, 0, 0, time.FixedZone("UTC-11", -11*3600)),
				time.Date(2025, 1, 1, 0, 1, 0, 0, time.FixedZone("UTC+14", 14*3600)),
			}
			for i := 0; i < n; i++ {
				r := t.R.Fork(uint64(i))
				date := dates[i%len(dates)]
				f, err := gen.File(r, gen.Opts{SECs: []string{"PPD", "CCD", "CTX", "WEB"}, MaxBatches: 3, MaxEntries: 5, PresetTraces: i%2 == 0})
				if err != nil {
					t.Fail("C13/generator", "generator failed", nil, err.Error(), "a valid file")
					continue
				}
				skip := false
				key := ""
				var before [][]entrySnap
				var totals [][2]int
				for _, b := range f.Batches {
					var es []entrySnap
					key += fmt.Sprintf("|%s/%d:", b.GetHeader().StandardEntryClassCode, b.GetHeader().ServiceClassCode)
					for _, e := range b.GetEntries() {
						if e.TransactionCode == 53 || e.TransactionCode == 54 {
							skip = true
						}
						es = append(es, entrySnap{e.TransactionCode, e.Amount, e.DFIAccountNumber, e.TraceNumber})
						key += fmt.Sprintf("%d,", e.TransactionCode)
					}
					before = append(before, es)
					totals = append(totals, [2]int{b.GetControl().TotalDebitEntryDollarAmount, b.GetControl().TotalCreditEntryDollarAmount})
				}
				if skip {
					t.Case(key, "skipped-53-54", false)
					continue
				}
				// every third file carries stored options (one boolean option at a time, SkipAll among them): the file is
				// valid under the default rules all the same, and so must the reversing file be
				var stored *ach.ValidateOpts
				class := "reversal"
				if i%3 == 2 {
					o, name := SingleFlagOpts(i / 3)
					SetAllValidation(f, o)
					if f.Validate() == nil {
						stored = o
						class = "reversal/stored-" + name
						key += " opts=" + name
					} else {
						SetAllValidation(f, nil)
					}
				}
				fileTotals := [2]int{f.Control.TotalDebitEntryDollarAmountInFile, f.Control.TotalCreditEntryDollarAmountInFile}
				t.Case(key, class, len(before) > 0)
				desc := FileInput(f)
				if stored != nil {
					desc["stored_validate_opts"] = class
				}
				if err := f.Reversal(date); err != nil {
					t.Fail("C13/reversal-error", "Reversal returned an error on a valid forward file", desc, err.Error(), "nil")
					continue
				}
				checkReversed(t, f, before, totals, date, desc)
				if f.Control.TotalDebitEntryDollarAmountInFile != fileTotals[1] || f.Control.TotalCreditEntryDollarAmountInFile != fileTotals[0] {
					t.Fail("C13/file-totals-not-swapped", "the file control's debit/credit totals are not those of the reversed batches", desc,
						fmt.Sprintf("debit=%d credit=%d", f.Control.TotalDebitEntryDollarAmountInFile, f.Control.TotalCreditEntryDollarAmountInFile),
						fmt.Sprintf("debit=%d credit=%d", fileTotals[1], fileTotals[0]))
				}
				if stored != nil {
					if err := ValidateDefault(f, stored); err != nil {
						t.Fail("C13/result-invalid/stored-options", "the reversing file of a file that is valid under the default rules (and carries stored options) is not", desc, err.Error(), "nil")
					}
				}
				// reversing twice restores the original codes
				if err := f.Reversal(date); err != nil {
					t.Fail("C13/second-reversal-error", "second Reversal returned an error", desc, err.Error(), "nil")
					continue
				}
				for bi, b := range f.Batches {
					for ei, e := range b.GetEntries() {
						if ei < len(before[bi]) && e.TransactionCode != before[bi][ei].code {
							t.Fail(fmt.Sprintf("C13/twice-not-identity/code=%d", before[bi][ei].code), "reversing twice did not restore the transaction code",
								desc, fmt.Sprint(e.TransactionCode), fmt.Sprint(before[bi][ei].code))
						}
					}
				}
				if err := f.Validate(); err != nil {
					t.Fail("C13/twice-invalid", "file reversed twice does not validate", desc, err.Error(), "nil")
				}
			}
		},
	})
}

func checkReversed(t *T, f *ach.File, before [][]entrySnap, totals [][2]int, date time.Time, desc any) {
	for bi, b := range f.Batches {
		bh, bc := b.GetHeader(), b.GetControl()
		if bh.CompanyEntryDescription != "REVERSAL" {
			t.Fail("C13/description", "entry description is not REVERSAL", desc, bh.CompanyEntryDescription, "REVERSAL")
		}
		if bh.EffectiveEntryDate != date.Format("060102") {
			t.Fail("C13/effective-date", "effective date is not the requested one", desc, bh.EffectiveEntryDate, date.Format("060102"))
		}
		if bc.TotalDebitEntryDollarAmount != totals[bi][1] || bc.TotalCreditEntryDollarAmount != totals[bi][0] {
			t.Fail("C13/totals-not-swapped", "debit/credit totals are not swapped", desc,
				fmt.Sprintf("debit=%d credit=%d", bc.TotalDebitEntryDollarAmount, bc.TotalCreditEntryDollarAmount),
				fmt.Sprintf("debit=%d credit=%d", totals[bi][1], totals[bi][0]))
		}
		hasC, hasD := false, false
		es := b.GetEntries()
		if len(es) != len(before[bi]) {
			t.Fail("C13/entry-count", "number of entries changed", desc, fmt.Sprint(len(es)), fmt.Sprint(len(before[bi])))
			continue
		}
		for ei, e := range es {
			o := before[bi][ei]
			if e.Amount != o.amount || e.DFIAccountNumber != o.account || e.TraceNumber != o.trace {
				t.Fail("C13/entry-data-changed", "amount, account number or trace number changed", desc,
					fmt.Sprintf("%d %q %q", e.Amount, e.DFIAccountNumber, e.TraceNumber), fmt.Sprintf("%d %q %q", o.amount, o.account, o.trace))
			}
			if dirOf(e.TransactionCode) == dirOf(o.code) || dirOf(e.TransactionCode) == "" {
				t.Fail(fmt.Sprintf("C13/direction-not-flipped/code=%d", o.code), "direction not flipped", desc, fmt.Sprint(e.TransactionCode), "opposite direction of "+fmt.Sprint(o.code))
			}
			if e.TransactionCode/10 != o.code/10 {
				t.Fail(fmt.Sprintf("C13/account-type-changed/code=%d", o.code), "account type changed", desc, fmt.Sprint(e.TransactionCode), fmt.Sprint(o.code))
			}
			if ach.StandardTransactionCode(e.TransactionCode) != nil {
				t.Fail(fmt.Sprintf("C13/non-standard-code/code=%d", o.code), "result is not a standard code", desc, fmt.Sprint(e.TransactionCode), "a standard code")
			}
			if dirOf(e.TransactionCode) == "C" {
				hasC = true
			} else {
				hasD = true
			}
		}
		want := ach.MixedDebitsAndCredits
		if hasC && !hasD {
			want = ach.CreditsOnly
		} else if hasD && !hasC {
			want = ach.DebitsOnly
		}
		if bh.ServiceClassCode != want || bc.ServiceClassCode != want {
			codes := ""
			for _, o := range before[bi] {
				if o.code == 55 || o.code == 52 {
					codes = fmt.Sprintf("/code=%d", o.code)
				}
			}
			t.Fail("C13/service-class-mismatch"+codes, "service class does not match the new entry directions", desc,
				fmt.Sprintf("header=%d control=%d", bh.ServiceClassCode, bc.ServiceClassCode), fmt.Sprint(want))
		}
	}
	if err := f.Validate(); err != nil {
		t.Fail("C13/result-invalid", "reversed file does not validate", desc, err.Error(), "nil")
	}
}
