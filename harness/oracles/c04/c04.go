// Package c04 is the oracle of property C04: a file with one digit of an
// integrity-protected field changed, or cut short at any byte, is never
// accepted as something else.
package c04

import (
	"bytes"
	"fmt"
	"hash/fnv"
	"runtime"
	"sort"
	"strings"
	"sync"

	"github.com/moov-io/ach"
	"verif/harness/gen"
	. "verif/harness/oracle"
)

type field struct {
	name string
	a, b int // columns [a,b), 0-based
}

// The integrity-protected fields of the property, per record layout
// (columns from entryDetail.go, iatEntryDetail.go, advEntryDetail.go,
// batchHeader.go, iatBatchHeader.go, batchControl.go, advBatchControl.go,
// fileControl.go, advFileControl.go).  The file control's block count
// (columns 8-13) is deliberately absent.
var protected = map[string][]field{
	"EntryDetail":    {{"RDFIIdentification", 3, 11}, {"CheckDigit", 11, 12}, {"Amount", 29, 39}},
	"IATEntryDetail": {{"RDFIIdentification", 3, 11}, {"CheckDigit", 11, 12}, {"Amount", 29, 39}},
	"ADVEntryDetail": {{"RDFIIdentification", 3, 11}, {"CheckDigit", 11, 12}, {"Amount", 27, 39}},
	"BatchHeader":    {{"ODFIIdentification", 79, 87}, {"BatchNumber", 87, 94}},
	"IATBatchHeader": {{"ODFIIdentification", 79, 87}, {"BatchNumber", 87, 94}},
	"BatchControl": {{"ServiceClassCode", 1, 4}, {"EntryAddendaCount", 4, 10}, {"EntryHash", 10, 20}, {"TotalDebitEntryDollarAmount", 20, 32},
		{"TotalCreditEntryDollarAmount", 32, 44}, {"ODFIIdentification", 79, 87}, {"BatchNumber", 87, 94}},
	"ADVBatchControl": {{"ServiceClassCode", 1, 4}, {"EntryAddendaCount", 4, 10}, {"EntryHash", 10, 20}, {"TotalDebitEntryDollarAmount", 20, 40},
		{"TotalCreditEntryDollarAmount", 40, 60}, {"ODFIIdentification", 79, 87}, {"BatchNumber", 87, 94}},
	"FileControl": {{"BatchCount", 1, 7}, {"EntryAddendaCount", 13, 21}, {"EntryHash", 21, 31}, {"TotalDebitEntryDollarAmountInFile", 31, 43},
		{"TotalCreditEntryDollarAmountInFile", 43, 55}},
	"ADVFileControl": {{"BatchCount", 1, 7}, {"EntryAddendaCount", 13, 21}, {"EntryHash", 21, 31}, {"TotalDebitEntryDollarAmountInFile", 31, 51},
		{"TotalCreditEntryDollarAmountInFile", 51, 71}},
}

var filler = strings.Repeat("9", 94)

// sample is one valid file in canonical text form.
type sample struct {
	name   string // for the replay
	desc   string
	text   []byte
	le     string
	isADV  bool
	lines  []line
	hash   uint32
	source string // "gen" or "corpus"
}

type line struct {
	off   int    // byte offset of the record in text
	runes []rune // the 94 characters
	kind  string // record layout
	sec   string // SEC code of the enclosing batch ("" outside)
}

func split(text []byte, le string) []line {
	var out []line
	off := 0
	sec := ""
	adv := false
	for _, part := range strings.Split(string(text), le) {
		if part == "" {
			off += len(le)
			continue
		}
		rs := []rune(part)
		l := line{off: off, runes: rs}
		switch part[0] {
		case '1':
			l.kind = "FileHeader"
		case '5':
			if len(rs) >= 53 {
				sec = string(rs[50:53])
			}
			l.kind = "BatchHeader"
			if sec == ach.IAT {
				l.kind = "IATBatchHeader"
			}
			if sec == ach.ADV {
				adv = true
			}
		case '6':
			switch sec {
			case ach.IAT:
				l.kind = "IATEntryDetail"
			case ach.ADV:
				l.kind = "ADVEntryDetail"
			default:
				l.kind = "EntryDetail"
			}
		case '7':
			l.kind = "Addenda"
		case '8':
			l.kind = "BatchControl"
			if sec == ach.ADV {
				l.kind = "ADVBatchControl"
			}
		case '9':
			switch {
			case part == filler:
				l.kind = "filler"
			case adv:
				l.kind = "ADVFileControl"
			default:
				l.kind = "FileControl"
			}
		}
		l.sec = sec
		out = append(out, l)
		if part[0] == '8' {
			sec = ""
		}
		off += len(part) + len(le)
	}
	return out
}

func readValidate(text []byte) (f *ach.File, err error) {
	defer func() {
		if p := recover(); p != nil {
			err = fmt.Errorf("PANIC: %v", p)
		}
	}()
	g, err := ach.NewReader(bytes.NewReader(text)).Read()
	if err != nil {
		return &g, err
	}
	return &g, g.Validate()
}

func writeFile(f *ach.File, le string) (out []byte, err error) {
	defer func() {
		if p := recover(); p != nil {
			err = fmt.Errorf("PANIC in Writer.Write: %v", p)
		}
	}()
	var buf bytes.Buffer
	w := ach.NewWriter(&buf)
	w.LineEnding = le
	if err := w.Write(f); err != nil {
		return nil, err
	}
	return buf.Bytes(), nil
}

type failure struct {
	sig, what          string
	input              map[string]any
	observed, required string
}

type caseRec struct {
	key, class string
	nontrivial bool
}

type result struct {
	cases []caseRec
	fails []failure
}

func clip(b []byte) string {
	if len(b) > 12000 {
		return string(b[:12000]) + "…"
	}
	return string(b)
}

// tamper changes every digit of every protected field of lines[lo:hi] to every other digit.
func tamper(s *sample, lo, hi int, res *result) {
	for li := lo; li < hi && li < len(s.lines); li++ {
		l := s.lines[li]
		for _, fd := range protected[l.kind] {
			if len(l.runes) < fd.b {
				res.cases = append(res.cases, caseRec{"", "tamper/" + l.kind + "." + fd.name + "/record-too-short", false})
				continue
			}
			for c := fd.a; c < fd.b; c++ {
				orig := l.runes[c]
				class := "tamper/" + l.kind + "." + fd.name
				if orig < '0' || orig > '9' {
					res.cases = append(res.cases, caseRec{"", class + "/not-a-digit", false})
					continue
				}
				boff := l.off + len(string(l.runes[:c]))
				res.cases = append(res.cases, caseRec{fmt.Sprintf("%08x|%d|%d", s.hash, li, c), class, true})
				for d := byte('0'); d <= '9'; d++ {
					if rune(d) == orig {
						continue
					}
					t := append([]byte(nil), s.text...)
					t[boff] = d
					_, err := readValidate(t)
					if err != nil {
						continue
					}
					sec := l.sec
					switch {
					case sec == ach.IAT || sec == ach.ADV:
					case l.kind == "FileControl" || l.kind == "ADVFileControl":
						sec = "file"
					default:
						sec = "standard"
					}
					res.fails = append(res.fails, failure{
						fmt.Sprintf("C04/tamper-accepted/%s.%s/%s", l.kind, fd.name, sec),
						fmt.Sprintf("record %d (%s of a %s batch), column %d: digit %c changed to %c and the file is still read and validated without error", li+1, l.kind, l.sec, c+1, orig, d),
						map[string]any{"source": s.name, "describe": s.desc, "original_text": clip(s.text), "tampered_text": clip(t), "record": li + 1, "column": c + 1, "from": string(orig), "to": string(d)},
						"Read: nil, Validate: nil", "an error from Read or from Validate"})
				}
			}
		}
	}
}

// where describes the position of byte offset k of the text.
func where(s *sample, k int) string {
	for i := len(s.lines) - 1; i >= 0; i-- {
		l := s.lines[i]
		if k < l.off {
			continue
		}
		n := len(string(l.runes))
		switch {
		case k == l.off:
			return "before-" + l.kind
		case k < l.off+n:
			return "inside-" + l.kind
		case k == l.off+n:
			return "after-" + l.kind + "-before-its-line-ending"
		default:
			return "inside-line-ending-after-" + l.kind
		}
	}
	return "start"
}

// truncate checks the prefixes text[:k] for k in [lo,hi).
func truncate(s *sample, lo, hi int, res *result) {
	for k := lo; k < hi && k < len(s.text); k++ {
		p := s.text[:k]
		g, err := readValidate(p)
		w := where(s, k)
		key := fmt.Sprintf("%08x|cut|%d", s.hash, k)
		if err != nil {
			res.cases = append(res.cases, caseRec{key, "truncate/" + w + "/rejected", true})
			continue
		}
		out, werr := writeFile(g, s.le)
		if werr == nil && bytes.Equal(out, s.text) {
			res.cases = append(res.cases, caseRec{key, "truncate/" + w + "/parses-to-the-original", true})
			continue
		}
		res.cases = append(res.cases, caseRec{key, "truncate/" + w + "/ACCEPTED-AS-ANOTHER-FILE", true})
		obs := ""
		if werr != nil {
			obs = "accepted by Read+Validate, but Write fails: " + werr.Error()
		} else {
			obs = "accepted by Read+Validate; written back it is " + firstDiff(out, s.text, s.le)
		}
		res.fails = append(res.fails, failure{"C04/truncation-accepted/" + w,
			fmt.Sprintf("the first %d of %d bytes are read and validated without error but are not the original file", k, len(s.text)),
			map[string]any{"source": s.name, "describe": s.desc, "original_text": clip(s.text), "cut_at_byte": k, "prefix": clip(p)},
			obs, "an error, or a file that writes back to exactly the original text"})
	}
}

func firstDiff(got, want []byte, le string) string {
	a, b := strings.Split(string(got), le), strings.Split(string(want), le)
	for i := 0; i < len(a) || i < len(b); i++ {
		switch {
		case i >= len(a):
			return fmt.Sprintf("%d records instead of %d", len(a)-1, len(b)-1)
		case i >= len(b):
			return fmt.Sprintf("%d records instead of %d", len(a)-1, len(b)-1)
		case a[i] != b[i]:
			return fmt.Sprintf("different at record %d: %q instead of %q", i+1, a[i], b[i])
		}
	}
	return "equal"
}

func hash32(b []byte) uint32 {
	h := fnv.New32a()
	h.Write(b)
	return h.Sum32()
}

func describeNoID(f *ach.File) string {
	d := gen.Describe(f)
	if i := strings.Index(d, " "); i >= 0 {
		d = d[i+1:]
	}
	return d
}

func newSample(name, source string, f *ach.File, text []byte, le string) *sample {
	s := &sample{name: name, desc: describeNoID(f), text: text, le: le, isADV: f.IsADV(), source: source, hash: hash32(text)}
	s.lines = split(text, le)
	return s
}

type task struct {
	s      *sample
	kind   int // 0 tamper (lines lo..hi), 1 truncate (bytes lo..hi)
	lo, hi int
}

func init() {
	Register("C04", &Oracle{
		Rule: "samples: one small generator file per SEC code (all 23 incl. IAT and ADV; categories Forward/Return/NOC/dishonored/contested as the SEC admits; " +
			"LF and CRLF; ASCII and Latin-1) plus mixed multi-batch files plus the corpus files that read, validate and are write/read stable; thorough: 15x as many generator files. " +
			"Per sample, exhaustively: (a) every column of every protected field (entry RDFI, check digit, amount; batch header ODFI, batch number; batch control service class, " +
			"count, hash, totals, ODFI, batch number; file control batch count, entry/addenda count, hash, totals; standard, IAT and ADV layouts) x the 9 other digits -> Read+Validate must fail; " +
			"(b) every proper prefix of the text -> Read+Validate fails or the file writes back to exactly the original text. " +
			"distinct = (sample, record, column) resp. (sample, cut offset); one evaluation per column (covering its 9 replacements) and per offset",
		Run: run,
	})
}

func run(t *T) {
	secs := gen.AllSECs()
	var samples []*sample
	var early []failure
	addGen := func(i int, o gen.Opts, tag string, crlf bool) {
		r := t.R.Fork(uint64(i))
		f, err := gen.File(r, o)
		if err != nil {
			early = append(early, failure{"C04/generator", "generator failed", map[string]any{"opts": fmt.Sprintf("%+v", o)}, err.Error(), "a valid file"})
			return
		}
		le := "\n"
		if crlf {
			le = "\r\n"
		}
		text, err := writeFile(f, le)
		if err != nil {
			early = append(early, failure{"C04/generator", "generated file cannot be written", FileInput(f), err.Error(), "nil"})
			return
		}
		samples = append(samples, newSample(fmt.Sprintf("gen[%d]/%s", i, tag), "gen", f, text, le))
	}
	rounds := t.Budget(1)
	n := 0
	for round := 0; round < rounds; round++ {
		for si, sec := range secs {
			o := gen.Opts{IATCorrections: true, SECs: []string{sec}, Categories: gen.AllCategories(), MinBatches: 1, MaxBatches: 2, MaxEntries: 3, MaxAddenda: 2,
				PresetTraces: true, Offset: round%2 == 1, NonASCII: (si+round)%4 == 3, FullWidth: (si+round)%5 == 4}
			addGen(n, o, sec, (si+round)%3 == 2)
			n++
		}
		// the IAT and ADV layouts differ from the standard one: two larger files of each
		for m := 0; m < 4; m++ {
			sec := []string{ach.IAT, ach.ADV}[m%2]
			o := gen.Opts{IATCorrections: true, SECs: []string{sec}, Categories: gen.AllCategories(), MinBatches: 2, MaxBatches: 3, MaxEntries: 4, PresetTraces: m < 2, NonASCII: m >= 2, FullWidth: m >= 2}
			addGen(n, o, sec+"-large", m == 3)
			n++
		}
		// mixed files: standard + IAT batches of several SECs, returns and NOCs
		for m := 0; m < 2; m++ {
			o := gen.Opts{IATCorrections: true, Categories: gen.AllCategories(), MinBatches: 3, MaxBatches: 4, MaxEntries: 3, PresetTraces: m == 0, Offset: true, NonASCII: m == 1}
			addGen(n, o, "mixed", m == 1)
			n++
		}
	}
	// every transaction code the IAT totals table can meet, each in a one-batch IAT file (zero and non-zero amounts):
	// an amount whose code is in neither list of IATBatch.calculateBatchAmounts would be unprotected
	for ci, code := range []int{21, 22, 23, 24, 26, 27, 28, 29, 31, 32, 33, 34, 36, 37, 38, 39, 41, 42, 43, 44, 46, 47, 48, 49, 51, 52, 53, 54, 55, 56} {
		gr := t.R.Fork(uint64(900000 + ci))
		f, err := gen.File(gr, gen.Opts{SECs: []string{ach.IAT}, MinBatches: 1, MaxBatches: 1, MaxEntries: 2, PresetTraces: true})
		if err != nil || len(f.IATBatches) == 0 || len(f.IATBatches[0].Entries) == 0 {
			continue
		}
		e := f.IATBatches[0].Entries[0]
		e.TransactionCode = code
		if ci%2 == 0 {
			e.Amount = 0
		}
		f.IATBatches[0].Header.ServiceClassCode = ach.MixedDebitsAndCredits
		if f.IATBatches[0].Create() != nil || f.Create() != nil {
			continue
		}
		text, err := writeFile(f, "\n")
		if err != nil {
			continue
		}
		if _, err := readValidate(text); err != nil {
			continue // this code needs more than a forward IAT entry offers (returns, NOCs): not a sample
		}
		samples = append(samples, newSample(fmt.Sprintf("iat-code[%d]", code), "gen", f, text, "\n"))
	}

	// corpus: the fixtures that are valid and stable under write/read
	corpus := gen.CorpusTexts()
	var paths []string
	for p := range corpus {
		paths = append(paths, p)
	}
	sort.Strings(paths)
	seenText := map[uint32]bool{}
	nCorpus := 0
	maxCorpus := 6
	if t.Tier != "quick" {
		maxCorpus = 1000
	}
	for _, p := range paths {
		f, err := readValidate(corpus[p])
		if err != nil || f == nil {
			continue
		}
		text, err := writeFile(f, "\n")
		if err != nil {
			continue
		}
		g, err := readValidate(text)
		if err != nil {
			continue
		}
		if again, err := writeFile(g, "\n"); err != nil || !bytes.Equal(again, text) {
			continue
		}
		if h := hash32(text); seenText[h] || len(text) > 6000 {
			continue
		} else {
			seenText[h] = true
		}
		if nCorpus >= maxCorpus {
			break
		}
		nCorpus++
		samples = append(samples, newSample(strings.TrimPrefix(p, gen.RepoRoot+"/"), "corpus", g, text, "\n"))
	}

	for _, f := range early {
		t.Fail(f.sig, f.what, f.input, f.observed, f.required)
	}

	// a sample must itself be accepted, otherwise nothing below means anything
	var tasks []task
	for _, s := range samples {
		if _, err := readValidate(s.text); err != nil {
			t.Case(s.name, "sample-rejected-untouched/"+s.source, false)
			t.Fail("C04/sample-not-accepted", "an untouched valid file is rejected by Read+Validate (see C01)", map[string]any{"source": s.name, "describe": s.desc, "text": clip(s.text)}, err.Error(), "nil")
			continue
		}
		for lo := 0; lo < len(s.lines); lo += 4 {
			tasks = append(tasks, task{s, 0, lo, lo + 4})
		}
		for lo := 0; lo < len(s.text); lo += 256 {
			tasks = append(tasks, task{s, 1, lo, lo + 256})
		}
	}
	out := make([]*result, len(tasks))
	var wg sync.WaitGroup
	ch := make(chan int)
	for w := 0; w < runtime.GOMAXPROCS(0); w++ {
		wg.Add(1)
		go func() {
			defer wg.Done()
			for i := range ch {
				res := &result{}
				func() {
					defer func() {
						if p := recover(); p != nil {
							res.fails = append(res.fails, failure{"C04/oracle-panic", "panic while evaluating a case", map[string]any{"source": tasks[i].s.name}, fmt.Sprint(p), "no panic"})
						}
					}()
					if tasks[i].kind == 0 {
						tamper(tasks[i].s, tasks[i].lo, tasks[i].hi, res)
					} else {
						truncate(tasks[i].s, tasks[i].lo, tasks[i].hi, res)
					}
				}()
				out[i] = res
			}
		}()
	}
	for i := range tasks {
		ch <- i
	}
	close(ch)
	wg.Wait()
	for _, res := range out {
		for _, c := range res.cases {
			t.Case(c.key, c.class, c.nontrivial)
		}
		for _, f := range res.fails {
			t.Fail(f.sig, f.what, f.input, f.observed, f.required)
		}
	}
}
