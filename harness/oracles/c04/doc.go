// Package c04 holds the oracle for property C04.
package c04
