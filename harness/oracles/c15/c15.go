// Package c15: relaxation options only ever relax.
package c15

import (
	"bytes"
	"errors"
	"fmt"
	"regexp"
	"runtime"
	"sort"
	"strings"
	"sync"
	"sync/atomic"

	"github.com/moov-io/ach"
	"github.com/moov-io/base"
	"verif/harness/gen"
	. "verif/harness/oracle"
)

const rule = "texts: valid generator files of every SEC (all categories, IAT, ADV, offsets, CRLF), directed single-/multi-field corruptions aimed at each of the 15 " +
	"relaxation flags (origin, destination, traces, zero batches, missing header/control, company id, return code, service class, batch order, check digit, addenda " +
	"counts, prenote/zero amounts with re-balanced totals, special characters), random character corruptions, structural mutants (records dropped, duplicated, " +
	"swapped, moved, truncated, unpadded, single-line), fuzzed bytes, every corpus file under /repo/test and mutants of them.  configurations: per text a random " +
	"chain {} = O0 < O1 < ... < O15 = all flags (one flag added per step, random order), a chain from a random set, random pairs O < O' differing in several flags, " +
	"nil options vs the empty option struct; in the thorough tier additionally all 2^15 sets for a small corpus of texts that are rejected under {} but accepted " +
	"under some set.  accept(O,t) := reader.SetValidation(O); Read() returns no error and file.Validate() (which applies the stored O) returns nil.  " +
	"distinct = distinct (text kind, accept pattern along the chain); non-trivial = the text is accepted under at least one option set of its chains and rejected " +
	"under at least one (so some flag really matters), or accepted under {}"

// the 15 relaxation flags, in the order of the property text
var flagNames = []string{
	"BypassOriginValidation", "BypassDestinationValidation", "CustomTraceNumbers", "AllowZeroBatches", "AllowMissingFileHeader",
	"AllowMissingFileControl", "BypassCompanyIdentificationMatch", "CustomReturnCodes", "UnequalServiceClassCode", "AllowUnorderedBatchNumbers",
	"AllowInvalidCheckDigit", "UnequalAddendaCounts", "AllowInvalidAmounts", "AllowZeroEntryAmount", "AllowSpecialCharacters",
}

const nFlags = 15

func toOpts(mask int) *ach.ValidateOpts {
	b := func(i int) bool { return mask&(1<<i) != 0 }
	return &ach.ValidateOpts{
		BypassOriginValidation:           b(0),
		BypassDestinationValidation:      b(1),
		CustomTraceNumbers:               b(2),
		AllowZeroBatches:                 b(3),
		AllowMissingFileHeader:           b(4),
		AllowMissingFileControl:          b(5),
		BypassCompanyIdentificationMatch: b(6),
		CustomReturnCodes:                b(7),
		UnequalServiceClassCode:          b(8),
		AllowUnorderedBatchNumbers:       b(9),
		AllowInvalidCheckDigit:           b(10),
		UnequalAddendaCounts:             b(11),
		AllowInvalidAmounts:              b(12),
		AllowZeroEntryAmount:             b(13),
		AllowSpecialCharacters:           b(14),
	}
}

func setString(mask int) string {
	if mask == 0 {
		return "{}"
	}
	var ns []string
	for i := 0; i < nFlags; i++ {
		if mask&(1<<i) != 0 {
			ns = append(ns, flagNames[i])
		}
	}
	return "{" + strings.Join(ns, ",") + "}"
}

var (
	reDigits = regexp.MustCompile(`[0-9]+`)
	reOther  = regexp.MustCompile(`[^A-Za-z#]+`)
)

// errClass reduces an error to a stable class: the record / field it concerns and the kind of complaint, no values.
func errClass(err error) string {
	if err == nil {
		return ""
	}
	var el base.ErrorList
	if errors.As(err, &el) && len(el) > 0 {
		err = el[0]
	}
	prefix := ""
	var pe *base.ParseError
	if errors.As(err, &pe) {
		prefix = "parse-" + pe.Record + "/"
		err = pe.Err
	}
	var be *ach.BatchError
	if errors.As(err, &be) {
		inner := ""
		if be.Err != nil {
			inner = "/" + typeName(be.Err)
		}
		return prefix + "batch." + be.FieldName + inner
	}
	var fe *ach.FieldError
	if errors.As(err, &fe) {
		inner := ""
		if fe.Err != nil {
			inner = "/" + shortMsg(fe.Err.Error())
		}
		return prefix + "field." + fe.FieldName + inner
	}
	return prefix + typeName(err)
}

func typeName(err error) string {
	tn := fmt.Sprintf("%T", err)
	if tn == "*errors.errorString" || tn == "*fmt.wrapError" {
		return shortMsg(err.Error())
	}
	return strings.TrimPrefix(strings.TrimPrefix(tn, "*"), "ach.")
}

func shortMsg(s string) string {
	s = reDigits.ReplaceAllString(s, "#")
	s = reOther.ReplaceAllString(s, "-")
	if len(s) > 48 {
		s = s[:48]
	}
	return strings.Trim(s, "-")
}

// accept reads and validates text under the option set mask.
func accept(text []byte, mask int, nilOpts bool) (ok bool, class string, msg string) {
	defer func() {
		if r := recover(); r != nil {
			ok, class, msg = false, "panic", fmt.Sprint(r)
		}
	}()
	rd := ach.NewReader(bytes.NewReader(text))
	if !nilOpts {
		rd.SetValidation(toOpts(mask))
	}
	f, err := rd.Read()
	if err != nil {
		return false, "read/" + errClass(err), err.Error()
	}
	if err := f.Validate(); err != nil {
		return false, "validate/" + errClass(err), err.Error()
	}
	return true, "", ""
}

type textCase struct {
	kind string // histogram bucket
	desc string // how it was made
	text []byte
}

type failRec struct {
	sig, what     string
	input         any
	obs, required string
}

type result struct {
	key, class string
	nontrivial bool
	fails      []failRec
	gainMask   int // an option set under which a text rejected under {} is accepted (0 = none seen)
}

func inputOf(tc textCase, from, to int) map[string]any {
	txt := string(tc.text)
	if len(txt) > 12000 {
		txt = txt[:12000] + "…"
	}
	return map[string]any{"text_kind": tc.kind, "made": tc.desc, "accepted_under": setString(from), "rejected_under": setString(to), "text": txt}
}

// checkStep reports a violation for the pair from ⊂ to (to = from + one flag).
func checkStep(res *result, tc textCase, from, to int, class, msg string) {
	added := "?"
	for i := 0; i < nFlags; i++ {
		if (to^from)&(1<<i) != 0 {
			added = flagNames[i]
		}
	}
	res.fails = append(res.fails, failRec{
		sig:      "C15/" + added + "/" + class,
		what:     "text accepted under " + setString(from) + " is rejected once " + added + " is turned on as well",
		input:    inputOf(tc, from, to),
		obs:      "rejected: " + msg,
		required: "accepted (superset of an accepting option set)",
	})
}

// evalText runs the sampled configurations on one text.
func evalText(r *gen.Rand, tc textCase) result {
	res := result{}
	type ev struct {
		ok         bool
		class, msg string
	}
	cache := map[int]ev{}
	get := func(mask int) ev {
		if e, ok := cache[mask]; ok {
			return e
		}
		ok, c, m := accept(tc.text, mask, false)
		e := ev{ok, c, m}
		cache[mask] = e
		return e
	}
	pattern := ""
	chain := func(start int) {
		order := make([]int, 0, nFlags)
		for i := 0; i < nFlags; i++ {
			if start&(1<<i) == 0 {
				order = append(order, i)
			}
		}
		for i := len(order) - 1; i > 0; i-- {
			j := r.Intn(i + 1)
			order[i], order[j] = order[j], order[i]
		}
		cur := start
		prev := get(cur)
		pat := []byte{'0'}
		if prev.ok {
			pat[0] = '1'
		}
		for _, fl := range order {
			next := cur | 1<<fl
			e := get(next)
			if prev.ok && !e.ok {
				checkStep(&res, tc, cur, next, e.class, e.msg)
			}
			if e.ok != prev.ok {
				if e.ok {
					pat = append(pat, []byte("+"+flagNames[fl])...)
				} else {
					pat = append(pat, []byte("-"+flagNames[fl])...)
				}
			}
			cur, prev = next, e
		}
		pattern += string(pat) + ";"
	}
	chain(0)
	chain(r.Intn(1 << nFlags))
	// random pairs O ⊂ O' differing in several flags
	for k := 0; k < 3; k++ {
		lo := r.Intn(1 << nFlags)
		hi := lo | r.Intn(1<<nFlags)
		if hi == lo {
			continue
		}
		a, b := get(lo), get(hi)
		if a.ok && !b.ok {
			// walk from lo to hi to name the flag whose addition flips the outcome
			cur, prev := lo, a
			for i := 0; i < nFlags; i++ {
				if (hi^lo)&(1<<i) == 0 {
					continue
				}
				e := get(cur | 1<<i)
				if prev.ok && !e.ok {
					checkStep(&res, tc, cur, cur|1<<i, e.class, e.msg)
					break
				}
				cur, prev = cur|1<<i, e
			}
		}
	}
	// nil options and the empty struct are the same (empty) option set
	okNil, cNil, mNil := accept(tc.text, 0, true)
	e0 := get(0)
	if okNil != e0.ok {
		cls, msg, which := cNil, mNil, "no SetValidation call"
		if okNil {
			cls, msg, which = e0.class, e0.msg, "SetValidation(&ValidateOpts{})"
		}
		res.fails = append(res.fails, failRec{
			sig:      "C15/nil-vs-empty-options/" + cls,
			what:     "the empty option set is accepted one way and rejected the other (" + which + " rejects)",
			input:    inputOf(tc, 0, 0),
			obs:      "rejected: " + msg,
			required: "the same outcome for nil options and for &ValidateOpts{}",
		})
	}
	anyOK, anyRej := false, false
	for m, e := range cache {
		if e.ok {
			anyOK = true
			if !e0.ok && (res.gainMask == 0 || m < res.gainMask) {
				res.gainMask = m
			}
		} else {
			anyRej = true
		}
	}
	res.key = tc.kind + "|" + pattern
	switch {
	case e0.ok:
		res.class = tc.kind + ":accepted-under-{}"
	case anyOK:
		res.class = tc.kind + ":accepted-under-some-set"
	default:
		res.class = tc.kind + ":always-rejected"
	}
	res.nontrivial = e0.ok || (anyOK && anyRej)
	return res
}

func init() {
	Register("C15", &Oracle{Rule: rule, Run: run})
}

func run(t *T) {
	// corpus texts, in path order
	corpus := gen.CorpusTexts()
	var paths []string
	for p := range corpus {
		paths = append(paths, p)
	}
	sort.Strings(paths)

	n := t.Budget(6000)
	total := n + len(paths)
	rs := make([]*gen.Rand, total)
	for i := range rs {
		rs[i] = t.R.Fork(uint64(i))
	}
	results := make([]result, total)
	texts := make([]textCase, total)
	var wg sync.WaitGroup
	next := int64(-1)
	for w := 0; w < runtime.NumCPU(); w++ {
		wg.Add(1)
		go func() {
			defer wg.Done()
			for {
				i := int(atomic.AddInt64(&next, 1))
				if i >= total {
					return
				}
				r := rs[i]
				var tc textCase
				if i < len(paths) {
					tc = textCase{kind: "corpus", desc: paths[i], text: corpus[paths[i]]}
				} else {
					var cp []byte
					if len(paths) > 0 {
						cp = corpus[paths[r.Intn(len(paths))]]
					}
					tc = makeText(r, i-len(paths), cp)
				}
				texts[i] = tc
				results[i] = evalText(r, tc)
			}
		}()
	}
	wg.Wait()
	for i := range results {
		for _, f := range results[i].fails {
			t.Fail(f.sig, f.what, f.input, f.obs, f.required)
		}
		t.Case(results[i].key, results[i].class, results[i].nontrivial)
	}

	if t.Tier == "thorough" {
		exhaustive(t, texts, results)
	}
}

// exhaustive evaluates all 2^15 option sets on up to 40 texts, preferring texts
// rejected under {} and accepted under some set (one per distinct (kind, gaining set)).
func exhaustive(t *T, texts []textCase, results []result) {
	var pick []int
	seen := map[string]bool{}
	perKind := map[string]int{}
	for i, r := range results {
		if r.gainMask != 0 && len(texts[i].text) < 6000 && perKind[texts[i].kind] < 5 && len(pick) < 34 {
			k := fmt.Sprintf("%s/%d", texts[i].kind, r.gainMask)
			if !seen[k] {
				seen[k] = true
				perKind[texts[i].kind]++
				pick = append(pick, i)
			}
		}
	}
	for i, r := range results { // a few texts accepted under {} as well
		if len(pick) >= 40 {
			break
		}
		if r.gainMask == 0 && r.nontrivial && len(texts[i].text) < 6000 {
			k := texts[i].kind + "/valid"
			if !seen[k] {
				seen[k] = true
				pick = append(pick, i)
			}
		}
	}
	const all = 1 << nFlags
	for _, ti := range pick {
		tc := texts[ti]
		okv := make([]bool, all)
		cls := make([]string, all)
		msgs := make([]string, all)
		var wg sync.WaitGroup
		next := int64(-1)
		for w := 0; w < runtime.NumCPU(); w++ {
			wg.Add(1)
			go func() {
				defer wg.Done()
				for {
					m := int(atomic.AddInt64(&next, 1))
					if m >= all {
						return
					}
					okv[m], cls[m], msgs[m] = accept(tc.text, m, false)
				}
			}()
		}
		wg.Wait()
		acc, viol := 0, 0
		res := result{}
		for m := 0; m < all; m++ {
			if !okv[m] {
				continue
			}
			acc++
			for i := 0; i < nFlags; i++ {
				if m&(1<<i) == 0 && !okv[m|1<<i] {
					viol++
					checkStep(&res, tc, m, m|1<<i, cls[m|1<<i], msgs[m|1<<i])
				}
			}
		}
		for _, f := range res.fails {
			t.Fail(f.sig, f.what, f.input, f.obs, f.required)
		}
		t.Case(fmt.Sprintf("all 2^15 sets on text #%d (%s: %s): accepted under %d sets", ti, tc.kind, tc.desc, acc),
			"exhaustive-2^15/"+tc.kind, acc > 0 && acc < all || acc == all)
	}
}
