// Package c15 holds the oracle for property C15.
package c15
