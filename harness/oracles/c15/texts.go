package c15

import (
	"fmt"
	"strconv"
	"strings"

	"github.com/moov-io/ach"
	"verif/harness/gen"
)

// lines splits a NACHA text into its records (without line endings).
func splitLines(text []byte) []string {
	s := strings.ReplaceAll(string(text), "\r\n", "\n")
	ls := strings.Split(s, "\n")
	for len(ls) > 0 && ls[len(ls)-1] == "" {
		ls = ls[:len(ls)-1]
	}
	return ls
}

func join(ls []string, crlf bool) []byte {
	sep := "\n"
	if crlf {
		sep = "\r\n"
	}
	return []byte(strings.Join(ls, sep) + sep)
}

// put overwrites columns [from, from+len(v)) of a record (rune positions).
func put(line string, from int, v string) string {
	rs := []rune(line)
	vs := []rune(v)
	if from < 0 || from+len(vs) > len(rs) {
		return line
	}
	copy(rs[from:], vs)
	return string(rs)
}

func field(line string, from, to int) string {
	rs := []rune(line)
	if to > len(rs) {
		return ""
	}
	return string(rs[from:to])
}

// indices of the records of a given type; padding lines (all 9s) are not file controls.
func recs(ls []string, typ byte) []int {
	var out []int
	for i, l := range ls {
		if len(l) > 0 && l[0] == typ {
			if typ == '9' && strings.HasPrefix(l, "99") {
				continue
			}
			out = append(out, i)
		}
	}
	return out
}

func pickIdx(r *gen.Rand, xs []int) (int, bool) {
	if len(xs) == 0 {
		return 0, false
	}
	return xs[r.Intn(len(xs))], true
}

// addNum adds d to the zero padded number in columns [from,to) of line.
func addNum(line string, from, to, d int) string {
	n, err := strconv.Atoi(strings.TrimSpace(field(line, from, to)))
	if err != nil {
		return line
	}
	n += d
	if n < 0 {
		n = 0
	}
	return put(line, from, fmt.Sprintf("%0*d", to-from, n))
}

// enclosing returns the index of the next record of type typ at or after i (-1 if none).
func nextRec(ls []string, i int, typ byte) int {
	for ; i < len(ls); i++ {
		if len(ls[i]) > 0 && ls[i][0] == typ && !(typ == '9' && strings.HasPrefix(ls[i], "99")) {
			return i
		}
	}
	return -1
}

func isADVText(ls []string) bool {
	for _, l := range ls {
		if len(l) > 53 && l[0] == '5' && field(l, 50, 53) == "ADV" {
			return true
		}
	}
	return false
}

var directedNames = []string{
	"origin-zero", "destination-check-digit", "destination-zero", "trace-odfi", "trace-order", "trace-zero", "zero-batches", "no-file-header", "no-file-control",
	"company-id-control", "return-code", "service-class-control", "service-class-header", "batch-order", "batch-number", "check-digit", "batch-addenda-count",
	"file-addenda-count", "ctx-addenda-records", "addenda-indicator", "prenote-with-amount", "zero-amount-balanced", "amount-plus-balanced", "special-char",
	"addenda-sequence", "iat-addenda-records", "block-count-zero", "file-header-field", "batch-header-field",
	"destination-zero-filled", "origin-zero-filled", "unicode-space-edge",
}

var specials = []string{"\x7f", "\x1f", "€", "→", "日", "ß", " ", "`", "\x00", "Ø", "¡"}

// directed applies one corruption aimed at a particular relaxation flag.  ok is false when it does not apply.
func directed(r *gen.Rand, ls []string, name string) ([]string, bool) {
	out := append([]string{}, ls...)
	adv := isADVText(ls)
	switch name {
	case "destination-zero-filled", "origin-zero-filled":
		// the legitimate alternative spelling of the 10-column routing fields: zero-filled instead of blank-filled
		i, ok := pickIdx(r, recs(out, '1'))
		if !ok {
			return nil, false
		}
		col := 3
		if name == "origin-zero-filled" {
			col = 13
		}
		if field(out[i], col, col+1) != " " {
			return nil, false
		}
		out[i] = put(out[i], col, "0")
	case "origin-zero":
		i, ok := pickIdx(r, recs(out, '1'))
		if !ok {
			return nil, false
		}
		out[i] = put(out[i], 13, gen.Pick(r, []string{"0000000000", " 000000000"}))
	case "destination-check-digit":
		i, ok := pickIdx(r, recs(out, '1'))
		if !ok {
			return nil, false
		}
		d := field(out[i], 12, 13)
		if len(d) != 1 || d < "0" || d > "9" {
			return nil, false
		}
		out[i] = put(out[i], 12, strconv.Itoa((int(d[0]-'0')+r.Range(1, 9))%10))
	case "destination-zero":
		i, ok := pickIdx(r, recs(out, '1'))
		if !ok {
			return nil, false
		}
		out[i] = put(out[i], 3, " 000000000")
	case "trace-odfi":
		i, ok := pickIdx(r, recs(out, '6'))
		if !ok || adv {
			return nil, false
		}
		out[i] = put(out[i], 79, fmt.Sprintf("%08d", r.Intn(100_000_000)))
	case "trace-order":
		es := recs(out, '6')
		if len(es) < 2 || adv {
			return nil, false
		}
		k := r.Intn(len(es) - 1)
		a, b := es[k], es[k+1]
		ta, tb := field(out[a], 79, 94), field(out[b], 79, 94)
		out[a], out[b] = put(out[a], 79, tb), put(out[b], 79, ta)
	case "trace-zero":
		i, ok := pickIdx(r, recs(out, '6'))
		if !ok || adv {
			return nil, false
		}
		out[i] = put(out[i], 79, "000000000000000")
	case "zero-batches":
		hs, cs := recs(out, '1'), recs(out, '9')
		if len(hs) == 0 || len(cs) == 0 {
			return nil, false
		}
		ctl := "9000000000001000000000000000000000000000000000000000000" + strings.Repeat(" ", 39)
		if r.Bool() {
			ctl = put(out[cs[0]], 1, "000000") // only the batch count zeroed
		}
		out = []string{out[hs[0]], ctl}
	case "no-file-header":
		hs := recs(out, '1')
		if len(hs) == 0 {
			return nil, false
		}
		out = append(out[:hs[0]], out[hs[0]+1:]...)
	case "no-file-control":
		cs := recs(out, '9')
		if len(cs) == 0 {
			return nil, false
		}
		i := cs[len(cs)-1]
		out = append(out[:i], out[i+1:]...)
	case "company-id-control":
		i, ok := pickIdx(r, recs(out, '8'))
		if !ok || adv {
			return nil, false
		}
		out[i] = put(out[i], 44+r.Intn(10), gen.Pick(r, []string{"X", "7", " "}))
	case "return-code":
		var as []int
		for _, i := range recs(out, '7') {
			if field(out[i], 1, 3) == "99" {
				as = append(as, i)
			}
		}
		i, ok := pickIdx(r, as)
		if !ok {
			return nil, false
		}
		out[i] = put(out[i], 3, gen.Pick(r, []string{"R97", "R00", "R99", "RZZ", "X01", "R54", "R60", "R77"}))
	case "service-class-control":
		i, ok := pickIdx(r, recs(out, '8'))
		if !ok {
			return nil, false
		}
		out[i] = put(out[i], 1, gen.Pick(r, []string{"200", "220", "225"}))
	case "service-class-header":
		i, ok := pickIdx(r, recs(out, '5'))
		if !ok {
			return nil, false
		}
		out[i] = put(out[i], 1, gen.Pick(r, []string{"200", "220", "225"}))
	case "batch-order":
		hs := recs(out, '5')
		if len(hs) < 2 {
			return nil, false
		}
		k := r.Intn(len(hs) - 1)
		a0, b0 := hs[k], hs[k+1]
		a1, b1 := nextRec(out, a0, '8'), nextRec(out, b0, '8')
		if a1 < 0 || b1 < 0 || a1 > b0 {
			return nil, false
		}
		var n []string
		n = append(n, out[:a0]...)
		n = append(n, out[b0:b1+1]...)
		n = append(n, out[a1+1:b0]...)
		n = append(n, out[a0:a1+1]...)
		n = append(n, out[b1+1:]...)
		out = n
	case "batch-number":
		i, ok := pickIdx(r, recs(out, '5'))
		if !ok {
			return nil, false
		}
		j := nextRec(out, i, '8')
		if j < 0 {
			return nil, false
		}
		num := fmt.Sprintf("%07d", gen.Pick(r, []int{0, 1, 2, 3, 9999999}))
		out[i] = put(out[i], 87, num)
		if r.Chance(3, 4) {
			out[j] = put(out[j], 87, num)
		}
	case "check-digit":
		i, ok := pickIdx(r, recs(out, '6'))
		if !ok {
			return nil, false
		}
		d := field(out[i], 11, 12)
		if len(d) != 1 || d < "0" || d > "9" {
			return nil, false
		}
		out[i] = put(out[i], 11, strconv.Itoa((int(d[0]-'0')+r.Range(1, 9))%10))
	case "batch-addenda-count":
		i, ok := pickIdx(r, recs(out, '8'))
		if !ok {
			return nil, false
		}
		out[i] = addNum(out[i], 4, 10, gen.Pick(r, []int{1, -1, 5}))
		if c := recs(out, '9'); len(c) > 0 && r.Bool() { // the file control follows suit
			out[c[0]] = addNum(out[c[0]], 13, 21, 1)
		}
	case "file-addenda-count":
		i, ok := pickIdx(r, recs(out, '9'))
		if !ok {
			return nil, false
		}
		out[i] = addNum(out[i], 13, 21, gen.Pick(r, []int{1, -1, 7}))
	case "ctx-addenda-records":
		var es []int
		for _, h := range recs(out, '5') {
			sec := field(out[h], 50, 53)
			if sec == "CTX" || sec == "ATX" {
				end := nextRec(out, h, '8')
				for i := h + 1; i < len(out) && (end < 0 || i < end); i++ {
					if len(out[i]) > 0 && out[i][0] == '6' {
						es = append(es, i)
					}
				}
			}
		}
		i, ok := pickIdx(r, es)
		if !ok {
			return nil, false
		}
		out[i] = addNum(out[i], 54, 58, gen.Pick(r, []int{1, 2, -1}))
	case "iat-addenda-records":
		var es []int
		for _, h := range recs(out, '5') {
			if field(out[h], 50, 53) == "IAT" {
				end := nextRec(out, h, '8')
				for i := h + 1; i < len(out) && (end < 0 || i < end); i++ {
					if len(out[i]) > 0 && out[i][0] == '6' {
						es = append(es, i)
					}
				}
			}
		}
		i, ok := pickIdx(r, es)
		if !ok {
			return nil, false
		}
		out[i] = addNum(out[i], 12, 16, gen.Pick(r, []int{1, -1}))
	case "addenda-indicator":
		i, ok := pickIdx(r, recs(out, '6'))
		if !ok {
			return nil, false
		}
		ind := field(out[i], 78, 79)
		if ind != "0" && ind != "1" {
			return nil, false
		}
		out[i] = put(out[i], 78, map[string]string{"0": "1", "1": "0"}[ind])
	case "addenda-sequence":
		var as []int
		for _, i := range recs(out, '7') {
			if t := field(out[i], 1, 3); t == "05" || t == "17" || t == "18" {
				as = append(as, i)
			}
		}
		i, ok := pickIdx(r, as)
		if !ok {
			return nil, false
		}
		if r.Bool() {
			out[i] = addNum(out[i], 83, 87, gen.Pick(r, []int{1, 5})) // addenda sequence number
		} else {
			out[i] = addNum(out[i], 87, 94, gen.Pick(r, []int{1, 13})) // entry detail sequence number
		}
	case "prenote-with-amount":
		// a live amount under a prenote code of the same direction: totals stay balanced
		var es []int
		for _, i := range recs(out, '6') {
			c := field(out[i], 1, 3)
			if len(c) == 2 && (c[1] == '2' || c[1] == '7') && field(out[i], 29, 39) != "0000000000" && field(out[i], 29, 39) != "" {
				es = append(es, i)
			}
		}
		i, ok := pickIdx(r, es)
		if !ok || adv {
			return nil, false
		}
		c := field(out[i], 1, 3)
		out[i] = put(out[i], 2, string(c[1]+1))
	case "zero-amount-balanced", "amount-plus-balanced":
		if adv {
			return nil, false
		}
		var es []int
		for _, i := range recs(out, '6') {
			c := field(out[i], 1, 3)
			if len(c) == 2 && (c[1] == '2' || c[1] == '7') {
				es = append(es, i)
			}
		}
		i, ok := pickIdx(r, es)
		if !ok {
			return nil, false
		}
		amt, err := strconv.Atoi(field(out[i], 29, 39))
		bc, fc := nextRec(out, i, '8'), nextRec(out, i, '9')
		if err != nil || bc < 0 || fc < 0 {
			return nil, false
		}
		d := -amt
		if name == "amount-plus-balanced" {
			d = r.Range(1, 500)
		}
		out[i] = addNum(out[i], 29, 39, d)
		if c := field(out[i], 1, 3); c[1] == '2' { // credit
			out[bc] = addNum(out[bc], 32, 44, d)
			out[fc] = addNum(out[fc], 43, 55, d)
		} else {
			out[bc] = addNum(out[bc], 20, 32, d)
			out[fc] = addNum(out[fc], 31, 43, d)
		}
	case "block-count-zero":
		i, ok := pickIdx(r, recs(out, '9'))
		if !ok {
			return nil, false
		}
		out[i] = put(out[i], 7, "000000")
	case "file-header-field":
		i, ok := pickIdx(r, recs(out, '1'))
		if !ok {
			return nil, false
		}
		switch r.Intn(4) {
		case 0:
			out[i] = put(out[i], 33, gen.Pick(r, []string{"a", " ", "-"})) // file id modifier
		case 1:
			out[i] = put(out[i], 23, gen.Pick(r, []string{"999999", "      ", "ABCDEF"})) // creation date
		case 2:
			out[i] = put(out[i], 13, "          ") // blank origin
		default:
			out[i] = put(out[i], 3, "          ") // blank destination
		}
	case "batch-header-field":
		i, ok := pickIdx(r, recs(out, '5'))
		if !ok {
			return nil, false
		}
		switch r.Intn(3) {
		case 0:
			out[i] = put(out[i], 78, gen.Pick(r, []string{"0", "1", "2", "3"})) // originator status code
		case 1:
			out[i] = put(out[i], 69, gen.Pick(r, []string{"999999", "      "})) // effective entry date
		default:
			out[i] = put(out[i], 40, "          ") // company identification blank
		}
	case "unicode-space-edge":
		// a Unicode space (no-break space, ideographic space, …) at the edge of a value that two records repeat: the
		// company identification of a batch header and of its control, written alike in both
		i, ok := pickIdx(r, recs(out, '5'))
		if !ok {
			return nil, false
		}
		j := nextRec(out, i, '8')
		if j < 0 || adv {
			return nil, false
		}
		id := []rune(field(out[i], 40, 50))
		if string(id) != field(out[j], 44, 54) {
			return nil, false
		}
		sp := gen.Pick(r, []string{"\u00a0", "\u3000", "\u2003", "\u0085", "\u00a0"})
		n := len([]rune(strings.TrimRight(string(id), " ")))
		at := n
		switch {
		case r.Chance(1, 3):
			at = 0 // leading
		case n >= 10:
			at = 9
		}
		out[i] = put(out[i], 40+at, sp)
		out[j] = put(out[j], 44+at, sp)
	case "special-char":
		typ := gen.Pick(r, []byte{'1', '5', '6', '7', '8'})
		i, ok := pickIdx(r, recs(out, typ))
		if !ok {
			return nil, false
		}
		var from, to int
		switch typ {
		case '1':
			from, to = 40, 94
		case '5':
			from, to = 4, 50
			if r.Bool() {
				from, to = 53, 63
			}
		case '6':
			from, to = 12, 29
			if r.Bool() {
				from, to = 39, 78
			}
		case '7':
			from, to = 3, 83
		case '8':
			from, to = 44, 73
		}
		out[i] = put(out[i], r.Range(from, to-1), gen.Pick(r, specials))
	default:
		return nil, false
	}
	return out, true
}

var palette = []string{"0", "1", "5", "9", " ", "A", "z", "X", "-", "~", "\x7f", "é", "€", "\t", "*"}

// structural applies one structural mutation.
func structural(r *gen.Rand, ls []string) ([]string, string) {
	out := append([]string{}, ls...)
	if len(out) < 2 {
		return out, "none"
	}
	i := r.Intn(len(out))
	switch r.Intn(9) {
	case 0:
		return append(out[:i], out[i+1:]...), "drop-record"
	case 1:
		n := append([]string{}, out[:i+1]...)
		n = append(n, out[i])
		return append(n, out[i+1:]...), "duplicate-record"
	case 2:
		j := (i + 1) % len(out)
		out[i], out[j] = out[j], out[i]
		return out, "swap-adjacent-records"
	case 3:
		j := r.Intn(len(out))
		l := out[i]
		out = append(out[:i], out[i+1:]...)
		if j > len(out) {
			j = len(out)
		}
		n := append([]string{}, out[:j]...)
		n = append(n, l)
		return append(n, out[j:]...), "move-record"
	case 4:
		return out[:i+1], "truncate"
	case 5:
		var n []string
		for _, l := range out {
			if !strings.HasPrefix(l, "99999") {
				n = append(n, l)
			}
		}
		return n, "drop-padding"
	case 6:
		return []string{strings.Join(out, "")}, "single-line"
	case 7:
		// drop a whole batch
		hs := recs(out, '5')
		if len(hs) == 0 {
			return out, "none"
		}
		h := hs[r.Intn(len(hs))]
		e := nextRec(out, h, '8')
		if e < 0 {
			return out, "none"
		}
		return append(out[:h], out[e+1:]...), "drop-batch"
	default:
		// duplicate a whole batch
		hs := recs(out, '5')
		if len(hs) == 0 {
			return out, "none"
		}
		h := hs[r.Intn(len(hs))]
		e := nextRec(out, h, '8')
		if e < 0 {
			return out, "none"
		}
		n := append([]string{}, out[:e+1]...)
		n = append(n, out[h:e+1]...)
		return append(n, out[e+1:]...), "duplicate-batch"
	}
}

func fuzzBytes(r *gen.Rand, b []byte) []byte {
	out := append([]byte{}, b...)
	for k, n := 0, r.Range(1, 6); k < n && len(out) > 0; k++ {
		i := r.Intn(len(out))
		switch r.Intn(4) {
		case 0:
			out[i] = byte(r.Intn(256))
		case 1:
			out = append(out[:i], out[i+1:]...)
		case 2:
			out = append(out[:i], append([]byte{byte(r.Intn(256))}, out[i:]...)...)
		default:
			out[i] = "0123456789 ABC\n"[r.Intn(15)]
		}
	}
	return out
}

// validText generates one valid file and writes it.
func validText(r *gen.Rand, i int) ([]byte, string, error) {
	all := gen.AllSECs()
	o := gen.Opts{MaxBatches: 3, MaxEntries: 3, Offset: i%6 == 0, PresetTraces: i%4 == 0, NonASCII: i%9 == 0}
	switch i % 3 {
	case 0:
		o.SECs = []string{all[(i/3)%len(all)]}
	case 1:
		o.SECs = []string{all[(i/3)%len(all)], ach.IAT, ach.CTX}
	}
	if i%2 == 0 {
		o.Categories = gen.AllCategories()
	}
	f, err := gen.File(r, o)
	if err != nil {
		return nil, "", err
	}
	txt, err := gen.Write(f, i%5 == 0)
	if err != nil {
		return nil, "", err
	}
	return txt, gen.Describe(f), nil
}

// makeText builds the i-th generated text.
func makeText(r *gen.Rand, i int, corpus []byte) textCase {
	base, desc, err := validText(r, i)
	if err != nil {
		return textCase{kind: "generator-error", desc: err.Error(), text: nil}
	}
	crlf := strings.Contains(string(base), "\r\n")
	switch k := i % 16; {
	case k == 0:
		return textCase{"valid", desc, base}
	case k <= 5: // one directed corruption
		ls := splitLines(base)
		for try := 0; try < 8; try++ {
			name := gen.Pick(r, directedNames)
			if out, ok := directed(r, ls, name); ok {
				return textCase{"directed-1", name + " on " + desc, join(out, crlf)}
			}
		}
		return textCase{"valid", desc, base}
	case k <= 9: // two to four directed corruptions
		ls := splitLines(base)
		var names []string
		for try, want := 0, r.Range(2, 4); try < 12 && len(names) < want; try++ {
			name := gen.Pick(r, directedNames)
			if out, ok := directed(r, ls, name); ok {
				ls = out
				names = append(names, name)
			}
		}
		return textCase{fmt.Sprintf("directed-%d", len(names)), strings.Join(names, "+") + " on " + desc, join(ls, crlf)}
	case k == 10: // random character corruptions
		ls := splitLines(base)
		n := r.Range(1, 3)
		for j := 0; j < n; j++ {
			li := r.Intn(len(ls))
			ls[li] = put(ls[li], r.Intn(94), gen.Pick(r, palette))
		}
		return textCase{"random-chars", fmt.Sprintf("%d characters replaced on %s", n, desc), join(ls, crlf)}
	case k == 11 || k == 12:
		ls, name := structural(r, splitLines(base))
		if r.Chance(1, 3) {
			if out, ok := directed(r, ls, gen.Pick(r, directedNames)); ok {
				ls, name = out, name+"+directed"
			}
		}
		return textCase{"structural", name + " on " + desc, join(ls, crlf)}
	case k == 13:
		return textCase{"fuzzed-bytes", "byte edits on " + desc, fuzzBytes(r, base)}
	default: // mutants of corpus files
		if len(corpus) == 0 {
			return textCase{"valid", desc, base}
		}
		ls := splitLines(corpus)
		if len(ls) == 0 {
			return textCase{"fuzzed-bytes", "byte edits on a corpus file", fuzzBytes(r, corpus)}
		}
		if k == 14 {
			for try := 0; try < 8; try++ {
				name := gen.Pick(r, directedNames)
				if out, ok := directed(r, ls, name); ok {
					return textCase{"corpus-directed", name + " on a corpus file", join(out, false)}
				}
			}
		}
		out, name := structural(r, ls)
		return textCase{"corpus-structural", name + " on a corpus file", join(out, false)}
	}
}
