package c15

import (
	"regexp"
	"sort"
	"testing"

	"verif/harness/gen"
)

func TestStats(t *testing.T) {
	re := regexp.MustCompile(`[+-][A-Za-z]+`)
	cnt := map[string]int{}
	R := gen.NewRand(7)
	for i := 0; i < 4000; i++ {
		r := R.Fork(uint64(i))
		tc := makeText(r, i, nil)
		res := evalText(r, tc, nil)
		for _, m := range re.FindAllString(res.key, -1) {
			cnt[m]++
		}
	}
	var ks []string
	for k := range cnt {
		ks = append(ks, k)
	}
	sort.Strings(ks)
	for _, k := range ks {
		t.Logf("%6d %s", cnt[k], k)
	}
}
