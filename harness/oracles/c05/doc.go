// Package c05 holds the oracle for property C05.
package c05
