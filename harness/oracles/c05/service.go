package c05

import (
	"fmt"

	"github.com/moov-io/ach"
	"github.com/moov-io/ach/server"
	"github.com/moov-io/base/log"
	"verif/harness/gen"
	. "verif/harness/oracle"
)

// servicePhase: the offset clause of C05 through the server's service layer (server/service.go BalanceFile, the code
// behind POST /files/{id}/balance): a stored file is balanced, an entry is added to an already balanced batch, the file
// is balanced again; a batch is added through CreateBatch before it was ever created, then the file is balanced.
// After every BalanceFile each batch must have debits = credits with at most one offset entry per direction, and the
// file must validate.
func servicePhase(t *T) {
	n := t.Budget(60)
	for i := 0; i < n; i++ {
		r := t.R.Fork(uint64(7000000 + i))
		sec := gen.Pick(r, []string{ach.PPD, ach.CCD, ach.WEB, ach.CTX})
		f, err := gen.File(r, gen.Opts{SECs: []string{sec}, MinBatches: 1, MaxBatches: 2, MaxEntries: 3, MaxAddenda: -1})
		if err != nil {
			continue
		}
		repo := server.NewRepositoryInMemory(0, log.NewNopLogger())
		svc := server.NewService(repo)
		if err := repo.StoreFile(f); err != nil {
			continue
		}
		off := &ach.Offset{RoutingNumber: "121042882", AccountNumber: "1234567", AccountType: ach.OffsetChecking, Description: "OFFSET"}
		steps := []string{"BalanceFile"}
		key := fmt.Sprintf("service|%s|%d", sec, i%4)
		t.Case(key, "service-balance/"+sec, true)
		check := func(g *ach.File, when string) bool {
			ok := true
			if err := g.Validate(); err != nil {
				t.Fail("C05/service-balance/invalid-after-balance", "the file BalanceFile returns does not validate", map[string]any{"steps": steps, "file": FileInput(g)}, err.Error(), "nil")
				ok = false
			}
			for bi, b := range g.Batches {
				deb, cred, od, oc := 0, 0, 0, 0
				for _, e := range b.GetEntries() {
					isOff := e.IndividualName == "OFFSET"
					if e.CreditOrDebit() == "D" {
						deb += e.Amount
						if isOff {
							od++
						}
					} else {
						cred += e.Amount
						if isOff {
							oc++
						}
					}
				}
				if deb != cred {
					t.Fail("C05/service-balance/not-balanced", "a batch of the file BalanceFile returns is not balanced ("+when+")", map[string]any{"steps": steps, "file": FileInput(g)},
						fmt.Sprintf("batch index %d: debits=%d credits=%d", bi, deb, cred), "debits = credits")
					ok = false
				}
				if od > 1 || oc > 1 {
					t.Fail("C05/service-balance/more-than-one-offset-entry", "a batch holds more than one offset entry for a direction ("+when+")", map[string]any{"steps": steps, "file": FileInput(g)},
						fmt.Sprintf("batch index %d: %d debit and %d credit offset entries", bi, od, oc), "at most one per direction")
					ok = false
				}
			}
			return ok
		}
		g, err := svc.BalanceFile(f.ID, off)
		if err != nil || g == nil {
			continue // this batch type does not take an offset (its own validator refuses): not the clause under test
		}
		if !check(g, "first balance") {
			continue
		}
		switch i % 2 {
		case 0:
			// another entry joins a balanced batch, then the file is balanced again
			if len(g.Batches) == 0 || len(g.Batches[0].GetEntries()) == 0 {
				continue
			}
			src := g.Batches[0].GetEntries()[0]
			e := ach.NewEntryDetail()
			*e = *src
			e.Addenda05, e.Addenda02, e.Addenda98, e.Addenda99 = nil, nil, nil, nil
			e.AddendaRecordIndicator = 0
			e.Amount = 5000 + 100*(i%7)
			e.IndividualName = "Late Arrival"
			e.TraceNumber = ""
			e.ID = ""
			g.Batches[0].AddEntry(e)
			steps = append(steps, "AddEntry to the balanced batch", "BalanceFile")
		default:
			// a batch stored through the service before it was ever created
			h := *g.Batches[0].GetHeader()
			h.BatchNumber = 0
			nb, err := ach.NewBatch(&h)
			if err != nil {
				continue
			}
			src := g.Batches[0].GetEntries()[0]
			e := ach.NewEntryDetail()
			*e = *src
			e.Addenda05, e.Addenda02, e.Addenda98, e.Addenda99 = nil, nil, nil, nil
			e.AddendaRecordIndicator = 0
			e.Amount = 7000
			e.IndividualName = "Uncreated Batch"
			e.TraceNumber = ""
			e.ID = ""
			nb.AddEntry(e)
			nb.SetID(fmt.Sprintf("late%d", i))
			if _, err := svc.CreateBatch(g.ID, nb); err != nil {
				continue
			}
			steps = append(steps, "CreateBatch (never created)", "BalanceFile")
		}
		h, err := svc.BalanceFile(g.ID, off)
		if err != nil || h == nil {
			continue
		}
		check(h, "second balance")
	}
}
