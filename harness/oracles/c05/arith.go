package c05

// Independent NACHA control arithmetic.  Nothing in this file calls a helper
// of the library under test: padding, the 3-7-1 check digit, the credit/debit
// classification, the entry hash and every sum are re-implemented here.

import (
	"fmt"

	"github.com/moov-io/ach"
)

const hashMod = 10_000_000_000 // the entry hash keeps ten digits

// pad8 is the 8-column zero-filled field of a routing prefix (left padded, cut to 8 runes).
func padLeft(s string, n int) string {
	rs := []rune(s)
	if len(rs) > n {
		return string(rs[:n])
	}
	for len(rs) < n {
		rs = append([]rune{'0'}, rs...)
	}
	return string(rs)
}

func allDigits(s string) bool {
	if s == "" {
		return false
	}
	for _, c := range s {
		if c < '0' || c > '9' {
			return false
		}
	}
	return true
}

// rdfi8 is the numeric value of the 8-digit receiving routing prefix as it is
// rendered in columns 4-11 of an entry; ok is false when it is not 8 digits.
func rdfi8(s string) (int, bool) {
	f := padLeft(s, 8)
	if !allDigits(f) {
		return 0, false
	}
	n := 0
	for _, c := range f {
		n = n*10 + int(c-'0')
	}
	return n, true
}

// check371 is the ABA check digit of an 8-digit prefix: weights 3 7 1 3 7 1 3 7,
// the digit that brings the weighted sum to a multiple of ten.  -1 if p is not 8 digits.
func check371(p string) int {
	if len(p) != 8 || !allDigits(p) {
		return -1
	}
	w := [8]int{3, 7, 1, 3, 7, 1, 3, 7}
	s := 0
	for i := 0; i < 8; i++ {
		s += w[i] * int(p[i]-'0')
	}
	return (10 - s%10) % 10
}

// direction classifies a transaction code: "C", "D" or "" (unclassifiable).
// Standard / IAT entries: first digit 2..5 is the account type, second digit
// 1..4 is a credit and 5..9 a debit.  ADV entries: 81,83,85,87 are credits and
// 82,84,86,88 debits.
func direction(kind string, code int) string {
	t, u := code/10, code%10
	if code < 0 || code > 99 {
		return ""
	}
	if kind == "ADV" {
		if t == 8 && u >= 1 && u <= 8 {
			if u%2 == 1 {
				return "C"
			}
			return "D"
		}
		return ""
	}
	if t < 2 || t > 5 || u == 0 {
		return ""
	}
	if u <= 4 {
		return "C"
	}
	return "D"
}

// entryV gives uniform access to the three entry record types.
type entryV struct {
	id      string
	code    *int
	amount  *int
	rdfi    *string
	check   *string
	trace   *string // nil for ADV entries (they carry a sequence number instead)
	addenda func() int
	std     *ach.EntryDetail
	iat     *ach.IATEntryDetail
	adv     *ach.ADVEntryDetail
}

// batchV gives uniform access to standard, IAT and ADV batches.
type batchV struct {
	kind       string // "std", "IAT", "ADV"
	sec        string
	idx        int // index inside File.Batches or File.IATBatches
	hSCC, cSCC *int
	hODFI      *string
	cODFI      *string
	hNum, cNum *int
	cnt, hash  *int
	deb, cred  *int
	entries    []entryV
	validate   func() error
}

func stdAddenda(e *ach.EntryDetail) int {
	n := 0
	if e.Addenda02 != nil {
		n++
	}
	for _, a := range e.Addenda05 {
		if a != nil {
			n++
		}
	}
	if e.Addenda98 != nil {
		n++
	}
	if e.Addenda98Refused != nil {
		n++
	}
	if e.Addenda99 != nil {
		n++
	}
	if e.Addenda99Dishonored != nil {
		n++
	}
	if e.Addenda99Contested != nil {
		n++
	}
	return n
}

func iatAddenda(e *ach.IATEntryDetail) int {
	n := len(e.Addenda17) + len(e.Addenda18)
	if e.Addenda10 != nil {
		n++
	}
	if e.Addenda11 != nil {
		n++
	}
	if e.Addenda12 != nil {
		n++
	}
	if e.Addenda13 != nil {
		n++
	}
	if e.Addenda14 != nil {
		n++
	}
	if e.Addenda15 != nil {
		n++
	}
	if e.Addenda16 != nil {
		n++
	}
	if e.Addenda98 != nil {
		n++
	}
	if e.Addenda99 != nil {
		n++
	}
	return n
}

func stdView(b ach.Batcher, idx int) batchV {
	h := b.GetHeader()
	v := batchV{kind: "std", sec: h.StandardEntryClassCode, idx: idx, hSCC: &h.ServiceClassCode, hODFI: &h.ODFIIdentification, hNum: &h.BatchNumber, validate: b.Validate}
	if h.StandardEntryClassCode == ach.ADV {
		c := b.GetADVControl()
		v.kind = "ADV"
		v.cSCC, v.cODFI, v.cNum = &c.ServiceClassCode, &c.ODFIIdentification, &c.BatchNumber
		v.cnt, v.hash, v.deb, v.cred = &c.EntryAddendaCount, &c.EntryHash, &c.TotalDebitEntryDollarAmount, &c.TotalCreditEntryDollarAmount
		for _, e := range b.GetADVEntries() {
			e := e
			v.entries = append(v.entries, entryV{id: e.ID, code: &e.TransactionCode, amount: &e.Amount, rdfi: &e.RDFIIdentification, check: &e.CheckDigit, adv: e,
				addenda: func() int {
					if e.Addenda99 != nil {
						return 1
					}
					return 0
				}})
		}
		return v
	}
	c := b.GetControl()
	v.cSCC, v.cODFI, v.cNum = &c.ServiceClassCode, &c.ODFIIdentification, &c.BatchNumber
	v.cnt, v.hash, v.deb, v.cred = &c.EntryAddendaCount, &c.EntryHash, &c.TotalDebitEntryDollarAmount, &c.TotalCreditEntryDollarAmount
	for _, e := range b.GetEntries() {
		e := e
		v.entries = append(v.entries, entryV{id: e.ID, code: &e.TransactionCode, amount: &e.Amount, rdfi: &e.RDFIIdentification, check: &e.CheckDigit, trace: &e.TraceNumber, std: e,
			addenda: func() int { return stdAddenda(e) }})
	}
	return v
}

func iatView(b *ach.IATBatch, idx int) batchV {
	h, c := b.Header, b.Control
	v := batchV{kind: "IAT", sec: ach.IAT, idx: idx, hSCC: &h.ServiceClassCode, hODFI: &h.ODFIIdentification, hNum: &h.BatchNumber, validate: b.Validate}
	v.cSCC, v.cODFI, v.cNum = &c.ServiceClassCode, &c.ODFIIdentification, &c.BatchNumber
	v.cnt, v.hash, v.deb, v.cred = &c.EntryAddendaCount, &c.EntryHash, &c.TotalDebitEntryDollarAmount, &c.TotalCreditEntryDollarAmount
	for _, e := range b.Entries {
		e := e
		v.entries = append(v.entries, entryV{id: e.ID, code: &e.TransactionCode, amount: &e.Amount, rdfi: &e.RDFIIdentification, check: &e.CheckDigit, trace: &e.TraceNumber, iat: e,
			addenda: func() int { return iatAddenda(e) }})
	}
	return v
}

// views lists every batch of the file, standard/ADV batches first.
func views(f *ach.File) []batchV {
	var out []batchV
	for i, b := range f.Batches {
		out = append(out, stdView(b, i))
	}
	for i := range f.IATBatches {
		out = append(out, iatView(&f.IATBatches[i], i))
	}
	return out
}

// recomputed control values of one batch.
type totals struct {
	count, hash, debit, credit int
	badRDFI, badCode           int // entries whose routing prefix / code could not be interpreted
	foreign                    int // ADV codes in an IAT batch, standard codes in an ADV batch: the property does not say how they count
}

// foreignCode recognises the two combinations the property is silent about: an
// accounting (ADV) code on an IAT entry and a standard code on an ADV entry.
// The library's record validators admit both; whether such an entry is a credit
// or a debit of its batch is not defined, so totals of such batches are not judged.
func foreignCode(kind string, code int) bool {
	switch kind {
	case "IAT":
		return direction("ADV", code) != ""
	case "ADV":
		return direction("std", code) != ""
	}
	return false
}

func recompute(v batchV) totals {
	var t totals
	sum := 0
	for _, e := range v.entries {
		t.count += 1 + e.addenda()
		if n, ok := rdfi8(*e.rdfi); ok {
			sum += n
		} else {
			t.badRDFI++
		}
		switch direction(v.kind, *e.code) {
		case "C":
			t.credit += *e.amount
		case "D":
			t.debit += *e.amount
		default:
			if foreignCode(v.kind, *e.code) {
				t.foreign++
			} else {
				t.badCode++
			}
		}
	}
	t.hash = sum % hashMod
	return t
}

// fixBatch writes the recomputed values into the batch control.
func fixBatch(v batchV) {
	t := recompute(v)
	*v.cnt, *v.hash, *v.deb, *v.cred = t.count, t.hash, t.debit, t.credit
}

// fileCtl gives uniform access to FileControl / ADVFileControl.
type fileCtl struct {
	batches, count, hash, deb, cred *int
}

func isADVFile(f *ach.File) bool {
	for _, b := range f.Batches {
		if h := b.GetHeader(); h != nil && h.StandardEntryClassCode == ach.ADV {
			return true
		}
	}
	return false
}

func control(f *ach.File) fileCtl {
	if isADVFile(f) {
		c := &f.ADVControl
		return fileCtl{&c.BatchCount, &c.EntryAddendaCount, &c.EntryHash, &c.TotalDebitEntryDollarAmountInFile, &c.TotalCreditEntryDollarAmountInFile}
	}
	c := &f.Control
	return fileCtl{&c.BatchCount, &c.EntryAddendaCount, &c.EntryHash, &c.TotalDebitEntryDollarAmountInFile, &c.TotalCreditEntryDollarAmountInFile}
}

// fixFile writes the sums over the batch controls into the file control.
func fixFile(f *ach.File) {
	c := control(f)
	vs := views(f)
	*c.batches = len(vs)
	cnt, h, d, cr := 0, 0, 0, 0
	for _, v := range vs {
		cnt += *v.cnt
		h += *v.hash
		d += *v.deb
		cr += *v.cred
	}
	*c.count, *c.hash, *c.deb, *c.cred = cnt, ((h%hashMod)+hashMod)%hashMod, d, cr
}

// finding is one violated clause.
type finding struct {
	sig, what, observed, required string
}

func safely(fn func() error) (err error) {
	defer func() {
		if r := recover(); r != nil {
			err = fmt.Errorf("panic: %v", r)
		}
	}()
	return fn()
}

// checkControl compares a batch control with the values recomputed from the entries.
func checkControl(v batchV) []finding {
	var out []finding
	add := func(sig, what string, obs, req any) {
		out = append(out, finding{sig, what, fmt.Sprint(obs), fmt.Sprint(req)})
	}
	t := recompute(v)
	if *v.cnt != t.count {
		add("entry-addenda-count", "batch control entry/addenda count differs from the records in the batch", *v.cnt, t.count)
	}
	if t.badRDFI == 0 && *v.hash != t.hash {
		add("entry-hash", "batch control entry hash differs from the sum of the 8-digit receiving routing numbers modulo 10^10", *v.hash, t.hash)
	}
	if t.badCode == 0 && t.foreign == 0 {
		if *v.deb != t.debit {
			add("total-debit", "batch control debit total differs from the sum of the debit entries", *v.deb, t.debit)
		}
		if *v.cred != t.credit {
			add("total-credit", "batch control credit total differs from the sum of the credit entries", *v.cred, t.credit)
		}
	}
	if *v.hSCC != *v.cSCC {
		add("service-class", "header and control service class differ", *v.cSCC, *v.hSCC)
	}
	if padLeft(*v.hODFI, 8) != padLeft(*v.cODFI, 8) {
		add("odfi", "header and control ODFI differ", *v.cODFI, *v.hODFI)
	}
	if *v.hNum != *v.cNum {
		add("batch-number", "header and control batch number differ", *v.cNum, *v.hNum)
	}
	return out
}

// checkFileControl compares the file control with the sums over the batch controls.
func checkFileControl(f *ach.File) []finding {
	var out []finding
	add := func(sig, what string, obs, req any) {
		out = append(out, finding{sig, what, fmt.Sprint(obs), fmt.Sprint(req)})
	}
	vs := views(f)
	c := control(f)
	cnt, h, d, cr := 0, 0, 0, 0
	for _, v := range vs {
		cnt += *v.cnt
		h += *v.hash
		d += *v.deb
		cr += *v.cred
	}
	if *c.batches != len(vs) {
		add("batch-count", "file control batch count differs from the number of batches", *c.batches, len(vs))
	}
	if *c.count != cnt {
		add("entry-addenda-count", "file control entry/addenda count differs from the sum over the batch controls", *c.count, cnt)
	}
	if want := h % hashMod; *c.hash != want {
		add("entry-hash", "file control entry hash differs from the sum of the batch hashes modulo 10^10", *c.hash, want)
	}
	if *c.deb != d {
		add("total-debit", "file control debit total differs from the sum over the batch controls", *c.deb, d)
	}
	if *c.cred != cr {
		add("total-credit", "file control credit total differs from the sum over the batch controls", *c.cred, cr)
	}
	return out
}
