// Package c05: Create tabulates a valid, stable file; offsets balance every batch.
package c05

import (
	"bytes"
	"errors"
	"fmt"
	"regexp"
	"runtime"
	"strconv"
	"strings"
	"sync"
	"sync/atomic"
	"time"

	"github.com/moov-io/ach"
	"github.com/moov-io/base"
	"verif/harness/gen"
	. "verif/harness/oracle"
)

const rule = "scenario = a file of 1..3 batches of one focus SEC (every SEC in turn, mixed with other SECs and IAT; ADV files; 1..6 entries, 0..3 addenda, all " +
	"categories, full-width values) assembled through the public constructors and put back into its pre-Create state (controls reset, sequence numbers cleared), " +
	"with trace numbers absent / preset / absent-then-preset, batch numbers absent(0 or 1) / preset ascending / first preset, Offset none / checking / savings on " +
	"every SEC, plus a few batches of 150+ entries whose hashes overflow and at most three scenarios whose first entry is itself named OFFSET.  history = every " +
	"sequence of length 1..4 over {B = Create on every batch, F = File.Create, A = add an entry with an empty trace number} (120 per scenario), each run on a " +
	"fresh copy inside a goroutine with a timeout.  after a successful Create: Validate()==nil, controls equal an independent recomputation, batch numbers ascend, " +
	"trace / addenda / ADV sequence numbers are assigned and preset traces kept, an Offset batch has debits == credits through at most one OFFSET entry per " +
	"direction; a Create on an already tabulated batch/file must leave the rendered records unchanged.  distinct = distinct (scenario shape, history); " +
	"non-trivial = at least one Create in the history succeeded and was checked"

const hangTimeout = 8 * time.Second

func init() {
	Register("C05", &Oracle{Rule: rule, Run: run})
}

// ---- scenarios ----------------------------------------------------------------

type scenario struct {
	idx       int
	seed      uint64
	opts      gen.Opts
	traces    string // "absent", "preset", "absent-then-preset"
	numbers   string // "zero", "one", "preset-ascending", "first-preset"
	offset    string // "", "checking", "savings"
	big       bool
	offsetNam bool // the first entry of the first batch is named OFFSET by the user
	maxLen    int  // longest history
}

func (s *scenario) shape() string {
	o := s.offset
	if o == "" {
		o = "none"
	}
	x := ""
	if s.big {
		x += " big"
	}
	if s.offsetNam {
		x += " first-entry-named-OFFSET"
	}
	return fmt.Sprintf("SECs=%s traces=%s numbers=%s offset=%s%s", strings.Join(s.opts.SECs, "+"), s.traces, s.numbers, o, x)
}

func plan(t *T, n int) []*scenario {
	all := gen.AllSECs()
	var out []*scenario
	named := 0
	for i := 0; i < n; i++ {
		r := t.R.Fork(uint64(i))
		s := &scenario{idx: i, seed: r.Uint64(), maxLen: 4}
		focus := all[i%len(all)]
		s.opts = gen.Opts{SECs: []string{focus}, MinBatches: 1, MaxBatches: 3, MaxEntries: []int{1, 2, 3, 4, 6}[r.Intn(5)], MaxAddenda: []int{-1, 0, 1, 3}[r.Intn(4)],
			FullWidth: r.Chance(1, 5), PresetTraces: false}
		if focus != ach.ADV && r.Chance(1, 3) {
			o := all[r.Intn(len(all))]
			if o != ach.ADV && o != focus {
				s.opts.SECs = append(s.opts.SECs, o)
			}
		}
		if r.Bool() {
			s.opts.Categories = gen.AllCategories()
		}
		s.traces = gen.Pick(r, []string{"absent", "absent", "preset", "absent-then-preset"})
		s.numbers = gen.Pick(r, []string{"zero", "one", "one", "preset-ascending", "first-preset"})
		s.offset = gen.Pick(r, []string{"", "", "checking", "savings"})
		if focus == ach.ADV || focus == ach.IAT {
			s.offset = "" // Offset exists on standard batches only
		}
		if i%29 == 7 {
			// a few batches of 150+ entries whose hashes overflow ten digits, alternately ADV and standard
			s.big, s.maxLen = true, 2
			s.opts.MinBatches, s.opts.MaxBatches = 2, 3
			if (i/29)%2 == 0 {
				s.opts.SECs, s.offset = []string{ach.ADV}, ""
			} else if focus == ach.ADV || focus == ach.IAT {
				s.opts.SECs = []string{ach.PPD}
			}
		}
		if i%37 == 11 && named < 3 && focus != ach.ADV && focus != ach.IAT && !s.big {
			// a user entry that is itself called OFFSET; never more than three per run, whatever the tier,
			// because a Create that does not terminate keeps a goroutine spinning until the process ends
			named++
			s.offsetNam = true
			s.offset = gen.Pick(r, []string{"checking", "savings"})
		}
		out = append(out, s)
	}
	return out
}

// meta is what the oracle remembers about a freshly built scenario file.
type meta struct {
	preset map[any]string // entry pointer -> trace number the user set (must survive Create)
	offset []bool         // per batch (standard/ADV batches first, then IAT): an Offset is configured
}

func routingFor(r *gen.Rand) string {
	p := fmt.Sprintf("%02d", r.Range(1, 12)) + fmt.Sprintf("%06d", r.Intn(1_000_000))
	return p + strconv.Itoa(check371(p))
}

// build makes a fresh pre-Create copy of the scenario's file.
func (s *scenario) build() (*ach.File, *meta, error) {
	f, err := gen.File(gen.NewRand(s.seed), s.opts)
	if err != nil {
		return nil, nil, err
	}
	r := gen.NewRand(s.seed ^ 0x5ca1ab1e)
	m := &meta{preset: map[any]string{}}
	f.Control = ach.NewFileControl()
	f.ADVControl = ach.NewADVFileControl()
	nb := 0
	number := func(cur *int) {
		switch s.numbers {
		case "zero":
			*cur = 0
		case "one":
			*cur = 1
		case "preset-ascending":
			*cur = 3 + 4*nb
		case "first-preset":
			if nb == 0 {
				*cur = 5
			} else {
				*cur = 0
			}
		}
		nb++
	}
	for bi, b := range f.Batches {
		h := b.GetHeader()
		number(&h.BatchNumber)
		odfi := padLeft(h.ODFIIdentification, 8)
		if h.StandardEntryClassCode == ach.ADV {
			b.SetADVControl(ach.NewADVBatchControl())
			if s.big {
				src := b.GetADVEntries()[0]
				for k, n := 0, gen.Pick(r, []int{100, 110, 120, 200, 230}); k < n; k++ {
					e := *src
					p := strconv.Itoa(r.Range(6, 9)) + fmt.Sprintf("%07d", r.Intn(10_000_000))
					e.RDFIIdentification, e.CheckDigit, e.Addenda99 = p, strconv.Itoa(check371(p)), nil
					if src.Addenda99 != nil {
						a := *src.Addenda99
						e.Addenda99 = &a
					}
					b.AddADVEntry(&e)
				}
			}
			for _, e := range b.GetADVEntries() {
				e.SequenceNumber = 0
			}
			m.offset = append(m.offset, false)
			continue
		}
		b.SetControl(ach.NewBatchControl())
		if s.big {
			src := b.GetEntries()[0]
			for k, n := 0, gen.Pick(r, []int{100, 110, 120, 200, 230}); k < n; k++ {
				e := cloneStd(src)
				p := strconv.Itoa(r.Range(6, 9)) + fmt.Sprintf("%07d", r.Intn(10_000_000))
				e.RDFIIdentification, e.CheckDigit = p, strconv.Itoa(check371(p))
				if e.Amount > 1000 {
					e.Amount = r.Range(1, 1000)
				}
				b.AddEntry(e)
			}
		}
		es := b.GetEntries()
		if s.offsetNam && bi == 0 {
			es[0].IndividualName = "OFFSET"
		}
		firstPreset := len(es)
		switch s.traces {
		case "preset":
			firstPreset = 0
		case "absent-then-preset":
			firstPreset = r.Intn(len(es) + 1)
		}
		seq := len(es) + r.Range(1, 5_000_000)
		for i, e := range es {
			for _, a := range e.Addenda05 {
				a.SequenceNumber, a.EntryDetailSequenceNumber = 0, 0
			}
			if i < firstPreset {
				e.TraceNumber = ""
			} else {
				e.SetTraceNumber(odfi, seq)
				m.preset[e] = e.TraceNumber
				seq += r.Range(1, 3)
			}
		}
		if s.offset != "" {
			b.WithOffset(&ach.Offset{RoutingNumber: routingFor(r), AccountNumber: strconv.Itoa(r.Range(1000, 99999999)),
				AccountType: ach.OffsetAccountType(s.offset), Description: gen.Pick(r, []string{"", "OF"})})
		}
		m.offset = append(m.offset, s.offset != "")
	}
	for i := range f.IATBatches {
		b := &f.IATBatches[i]
		number(&b.Header.BatchNumber)
		cid := b.Control.CompanyIdentification
		b.Control = ach.NewBatchControl()
		b.Control.CompanyIdentification = cid
		odfi := padLeft(b.Header.ODFIIdentification, 8)
		firstPreset := len(b.Entries)
		switch s.traces {
		case "preset":
			firstPreset = 0
		case "absent-then-preset":
			firstPreset = r.Intn(len(b.Entries) + 1)
		}
		seq := len(b.Entries) + r.Range(1, 5_000_000)
		for k, e := range b.Entries {
			zeroIATSeq(e)
			if e.Addenda99 != nil {
				// IATEntryDetail.SetTraceNumber does not reach the Addenda99: returns keep the trace they were built with
				m.preset[e] = e.TraceNumber
				continue
			}
			if k < firstPreset {
				e.TraceNumber = ""
			} else {
				e.SetTraceNumber(odfi, seq)
				m.preset[e] = e.TraceNumber
				seq += r.Range(1, 3)
			}
		}
		m.offset = append(m.offset, false)
	}
	return f, m, nil
}

func zeroIATSeq(e *ach.IATEntryDetail) {
	if e.Addenda10 != nil {
		e.Addenda10.EntryDetailSequenceNumber = 0
	}
	if e.Addenda11 != nil {
		e.Addenda11.EntryDetailSequenceNumber = 0
	}
	if e.Addenda12 != nil {
		e.Addenda12.EntryDetailSequenceNumber = 0
	}
	if e.Addenda13 != nil {
		e.Addenda13.EntryDetailSequenceNumber = 0
	}
	if e.Addenda14 != nil {
		e.Addenda14.EntryDetailSequenceNumber = 0
	}
	if e.Addenda15 != nil {
		e.Addenda15.EntryDetailSequenceNumber = 0
	}
	if e.Addenda16 != nil {
		e.Addenda16.EntryDetailSequenceNumber = 0
	}
	for _, a := range e.Addenda17 {
		a.SequenceNumber, a.EntryDetailSequenceNumber = 0, 0
	}
	for _, a := range e.Addenda18 {
		a.SequenceNumber, a.EntryDetailSequenceNumber = 0, 0
	}
}

func cloneStd(e *ach.EntryDetail) *ach.EntryDetail {
	c := *e
	c.Addenda05 = nil
	for _, a := range e.Addenda05 {
		x := *a
		c.Addenda05 = append(c.Addenda05, &x)
	}
	if e.Addenda02 != nil {
		x := *e.Addenda02
		c.Addenda02 = &x
	}
	if e.Addenda98 != nil {
		x := *e.Addenda98
		c.Addenda98 = &x
	}
	if e.Addenda98Refused != nil {
		x := *e.Addenda98Refused
		c.Addenda98Refused = &x
	}
	if e.Addenda99 != nil {
		x := *e.Addenda99
		c.Addenda99 = &x
	}
	if e.Addenda99Dishonored != nil {
		x := *e.Addenda99Dishonored
		c.Addenda99Dishonored = &x
	}
	if e.Addenda99Contested != nil {
		x := *e.Addenda99Contested
		c.Addenda99Contested = &x
	}
	return &c
}

func cloneIAT(e *ach.IATEntryDetail) *ach.IATEntryDetail {
	c := *e
	if e.Addenda10 != nil {
		x := *e.Addenda10
		c.Addenda10 = &x
	}
	if e.Addenda11 != nil {
		x := *e.Addenda11
		c.Addenda11 = &x
	}
	if e.Addenda12 != nil {
		x := *e.Addenda12
		c.Addenda12 = &x
	}
	if e.Addenda13 != nil {
		x := *e.Addenda13
		c.Addenda13 = &x
	}
	if e.Addenda14 != nil {
		x := *e.Addenda14
		c.Addenda14 = &x
	}
	if e.Addenda15 != nil {
		x := *e.Addenda15
		c.Addenda15 = &x
	}
	if e.Addenda16 != nil {
		x := *e.Addenda16
		c.Addenda16 = &x
	}
	c.Addenda17, c.Addenda18 = nil, nil
	for _, a := range e.Addenda17 {
		x := *a
		c.Addenda17 = append(c.Addenda17, &x)
	}
	for _, a := range e.Addenda18 {
		x := *a
		c.Addenda18 = append(c.Addenda18, &x)
	}
	if e.Addenda99 != nil {
		x := *e.Addenda99
		c.Addenda99 = &x
	}
	return &c
}

// ---- rendering -----------------------------------------------------------------

func render(f *ach.File) (string, error) {
	var buf bytes.Buffer
	w := ach.NewWriter(&buf)
	w.BypassValidation = true
	if err := w.Write(f); err != nil {
		return "", err
	}
	return buf.String(), nil
}

// batchSegments cuts a rendering into the records of each batch (header .. control).
func batchSegments(text string) []string {
	var out []string
	cur := -1
	for _, l := range strings.Split(text, "\n") {
		if l == "" {
			continue
		}
		switch l[0] {
		case '5':
			out = append(out, l)
			cur = len(out) - 1
		case '6', '7':
			if cur >= 0 {
				out[cur] += "\n" + l
			}
		case '8':
			if cur >= 0 {
				out[cur] += "\n" + l
				cur = -1
			}
		}
	}
	return out
}

// ---- error classes ---------------------------------------------------------------

var (
	reDigits = regexp.MustCompile(`[0-9]+`)
	reOther  = regexp.MustCompile(`[^A-Za-z#]+`)
)

func shortMsg(s string) string {
	s = reDigits.ReplaceAllString(s, "#")
	s = reOther.ReplaceAllString(s, "-")
	if len(s) > 48 {
		s = s[:48]
	}
	return strings.Trim(s, "-")
}

func errClass(err error) string {
	var el base.ErrorList
	if errors.As(err, &el) && len(el) > 0 {
		err = el[0]
	}
	var be *ach.BatchError
	if errors.As(err, &be) {
		return "batch." + be.FieldName
	}
	var fe *ach.FieldError
	if errors.As(err, &fe) {
		return "field." + fe.FieldName
	}
	var ce ach.ErrFileCalculatedControlEquality
	if errors.As(err, &ce) {
		return "file-control." + ce.Field
	}
	return shortMsg(err.Error())
}

// ---- one history -------------------------------------------------------------------

type failRec struct {
	sig, what, obs, required string
}

type outcome struct {
	fails    []failRec
	checked  int   // successful Creates whose postconditions were examined
	progress int32 // number of operations completed
	note     string
}

type runner struct {
	s     *scenario
	f     *ach.File
	m     *meta
	hist  string
	out   *outcome
	dirty []bool
	stale bool
}

func (x *runner) fail(sig, what, obs, req string) {
	x.out.fails = append(x.out.fails, failRec{sig, what, obs, req})
}

func (x *runner) nBatches() int { return len(x.f.Batches) + len(x.f.IATBatches) }

func (x *runner) create(k int) error {
	if k < len(x.f.Batches) {
		return x.f.Batches[k].Create()
	}
	return x.f.IATBatches[k-len(x.f.Batches)].Create()
}

func (x *runner) anyDirty() bool {
	for _, d := range x.dirty {
		if d {
			return true
		}
	}
	return false
}

// batchChecks examines batch k after a successful Create.
func (x *runner) batchChecks(k int) {
	v := views(x.f)[k]
	pre := "C05/batch/" + v.kind + "/"
	if err := safely(v.validate); err != nil {
		x.fail(pre+"invalid-after-create/"+errClass(err), "Create returned nil but Validate() rejects the batch", err.Error(), "nil")
		return
	}
	for _, fd := range checkControl(v) {
		x.fail(pre+"control/"+fd.sig, fd.what, fd.observed, fd.required)
	}
	odfi := padLeft(*v.hODFI, 8)
	prev := ""
	for i, e := range v.entries {
		if e.trace != nil {
			tr := *e.trace
			switch {
			case len(tr) != 15 || !allDigits(tr):
				x.fail(pre+"trace-not-assigned", fmt.Sprintf("entry %d has no 15 digit trace number after Create", i), fmt.Sprintf("%q", tr), "15 digits")
			case tr[:8] != odfi:
				x.fail(pre+"trace-without-odfi", fmt.Sprintf("entry %d: trace number does not begin with the batch ODFI", i), tr, odfi+"…")
			case i > 0 && !(tr > prev):
				x.fail(pre+"trace-not-ascending", fmt.Sprintf("entry %d: trace number does not exceed its predecessor", i), tr, "> "+prev)
			}
			prev = tr
			var ptr any
			switch {
			case e.std != nil:
				ptr = e.std
			case e.iat != nil:
				ptr = e.iat
			}
			if want, ok := x.m.preset[ptr]; ok && want != tr && len(want) == 15 && want[:8] == odfi {
				x.fail(pre+"preset-trace-overwritten", fmt.Sprintf("entry %d: a preset trace number carrying the batch ODFI was replaced", i), tr, want)
			}
			seq, _ := strconv.Atoi(padLeft(tr, 15)[8:])
			if e.std != nil {
				for j, a := range e.std.Addenda05 {
					if a.SequenceNumber != j+1 {
						x.fail(pre+"addenda05-sequence", fmt.Sprintf("entry %d addenda %d: sequence number", i, j), fmt.Sprint(a.SequenceNumber), fmt.Sprint(j+1))
					}
					if a.EntryDetailSequenceNumber != seq {
						x.fail(pre+"addenda05-entry-sequence", fmt.Sprintf("entry %d addenda %d: entry detail sequence number", i, j), fmt.Sprint(a.EntryDetailSequenceNumber), fmt.Sprint(seq))
					}
				}
			}
			if y := e.iat; y != nil && y.Addenda98 == nil {
				got := []int{}
				for _, p := range []*int{edsn(y.Addenda10), edsn(y.Addenda11), edsn(y.Addenda12), edsn(y.Addenda13), edsn(y.Addenda14), edsn(y.Addenda15), edsn(y.Addenda16)} {
					if p != nil {
						got = append(got, *p)
					}
				}
				for j, a := range y.Addenda17 {
					got = append(got, a.EntryDetailSequenceNumber)
					if a.SequenceNumber != j+1 {
						x.fail(pre+"addenda17-sequence", fmt.Sprintf("entry %d addenda17 %d: sequence number", i, j), fmt.Sprint(a.SequenceNumber), fmt.Sprint(j+1))
					}
				}
				for j, a := range y.Addenda18 {
					got = append(got, a.EntryDetailSequenceNumber)
					if a.SequenceNumber != j+1 {
						x.fail(pre+"addenda18-sequence", fmt.Sprintf("entry %d addenda18 %d: sequence number", i, j), fmt.Sprint(a.SequenceNumber), fmt.Sprint(j+1))
					}
				}
				for _, g := range got {
					if g != seq {
						x.fail(pre+"addenda-entry-sequence", fmt.Sprintf("entry %d: an IAT addenda does not repeat the entry's sequence number", i), fmt.Sprint(g), fmt.Sprint(seq))
						break
					}
				}
			}
		}
		if e.adv != nil && e.adv.SequenceNumber != i+1 {
			x.fail(pre+"adv-sequence", fmt.Sprintf("ADV entry %d: sequence number", i), fmt.Sprint(e.adv.SequenceNumber), fmt.Sprint(i+1))
		}
	}
	if k < len(x.m.offset) && x.m.offset[k] {
		nd, nc := 0, 0
		for _, e := range v.entries {
			if e.std != nil && e.std.IndividualName == "OFFSET" {
				switch direction("std", *e.code) {
				case "D":
					nd++
				case "C":
					nc++
				}
			}
		}
		t := recompute(v)
		if *v.deb != *v.cred || t.debit != t.credit {
			x.fail(pre+"offset/unbalanced", "a batch with an Offset is not balanced after Create",
				fmt.Sprintf("control debit=%d credit=%d; entries debit=%d credit=%d", *v.deb, *v.cred, t.debit, t.credit), "debits == credits")
		}
		if nd > 1 || nc > 1 {
			x.fail(pre+"offset/more-than-one-offset-entry", "more than one OFFSET entry in one direction after Create", fmt.Sprintf("%d debit, %d credit", nd, nc), "at most one each")
		}
	}
}

func edsn(a any) *int {
	switch v := a.(type) {
	case *ach.Addenda10:
		if v != nil {
			return &v.EntryDetailSequenceNumber
		}
	case *ach.Addenda11:
		if v != nil {
			return &v.EntryDetailSequenceNumber
		}
	case *ach.Addenda12:
		if v != nil {
			return &v.EntryDetailSequenceNumber
		}
	case *ach.Addenda13:
		if v != nil {
			return &v.EntryDetailSequenceNumber
		}
	case *ach.Addenda14:
		if v != nil {
			return &v.EntryDetailSequenceNumber
		}
	case *ach.Addenda15:
		if v != nil {
			return &v.EntryDetailSequenceNumber
		}
	case *ach.Addenda16:
		if v != nil {
			return &v.EntryDetailSequenceNumber
		}
	}
	return nil
}

// fileChecks examines the file after a successful File.Create over tabulated batches.
func (x *runner) fileChecks() {
	kind := "file"
	if isADVFile(x.f) {
		kind = "file-ADV"
	}
	pre := "C05/" + kind + "/"
	numSuffix := ""
	if x.s.numbers == "first-preset" {
		numSuffix = "/first-batch-number-preset-others-absent"
	}
	if err := safely(x.f.Validate); err != nil {
		var asc ach.ErrFileBatchNumberAscending
		cls := errClass(err)
		if errors.As(err, &asc) {
			x.fail("C05/file/batch-numbers-not-ascending"+numSuffix, "File.Create returned nil over tabulated batches but Validate() rejects the batch numbers", err.Error(), "nil")
			return
		}
		x.fail(pre+"invalid-after-create/"+cls, "File.Create returned nil over tabulated batches but Validate() rejects the file", err.Error(), "nil")
		return
	}
	for _, fd := range checkFileControl(x.f) {
		x.fail(pre+"control/"+fd.sig, fd.what, fd.observed, fd.required)
	}
	last := 0
	for i, v := range views(x.f) {
		if *v.hNum <= last {
			x.fail("C05/file/batch-numbers-not-ascending"+numSuffix, fmt.Sprintf("batch %d has number %d after number %d", i, *v.hNum, last), fmt.Sprint(*v.hNum), fmt.Sprintf("> %d", last))
		}
		if *v.hNum != *v.cNum {
			x.fail(pre+"batch-number-header-control", fmt.Sprintf("batch %d: header and control batch numbers differ", i), fmt.Sprint(*v.cNum), fmt.Sprint(*v.hNum))
		}
		last = *v.hNum
	}
}

// addEntry appends a copy of the first entry of batch k with an empty trace number.
func (x *runner) addEntry(k int, salt int) {
	amt := 1 + (x.s.idx*7+salt*13)%900
	if k < len(x.f.Batches) {
		b := x.f.Batches[k]
		if b.GetHeader().StandardEntryClassCode == ach.ADV {
			if len(b.GetADVEntries()) == 0 {
				return
			}
			src := b.GetADVEntries()[0]
			e := *src
			if src.Addenda99 != nil {
				a := *src.Addenda99
				e.Addenda99 = &a
			}
			e.SequenceNumber = 0
			e.Amount = amt
			b.AddADVEntry(&e)
			return
		}
		var src *ach.EntryDetail
		for _, e := range b.GetEntries() {
			if e.IndividualName != "OFFSET" {
				src = e
				break
			}
		}
		if src == nil {
			if len(b.GetEntries()) == 0 {
				return // a Create removed every entry (all of them were called OFFSET)
			}
			src = b.GetEntries()[0]
		}
		e := cloneStd(src)
		e.TraceNumber = ""
		for _, a := range e.Addenda05 {
			a.SequenceNumber, a.EntryDetailSequenceNumber = 0, 0
		}
		if e.Amount != 0 {
			e.Amount = amt
		}
		b.AddEntry(e)
		return
	}
	b := &x.f.IATBatches[k-len(x.f.Batches)]
	if len(b.Entries) == 0 {
		return
	}
	e := cloneIAT(b.Entries[0])
	if e.Addenda99 == nil {
		e.TraceNumber = ""
	} else {
		last := b.Entries[len(b.Entries)-1].TraceNumber
		n, _ := strconv.Atoi(padLeft(last, 15)[8:])
		e.SetTraceNumber(padLeft(b.Header.ODFIIdentification, 8), n+1)
		e.Addenda99.TraceNumber = e.TraceNumber
	}
	zeroIATSeq(e)
	if e.Amount != 0 {
		e.Amount = amt
		if e.Addenda10 != nil {
			e.Addenda10.ForeignPaymentAmount = amt
		}
		if e.Addenda99 != nil {
			e.Addenda99.IATPaymentAmount(fmt.Sprintf("%010d", amt))
		}
	}
	b.AddEntry(e)
}

// run executes the history; it is called on its own goroutine.
func (x *runner) run() {
	x.dirty = make([]bool, x.nBatches())
	for i := range x.dirty {
		x.dirty[i] = true
	}
	x.stale = true
	for pos, op := range x.hist {
		switch op {
		case 'B':
			settled := !x.anyDirty() && !x.stale
			before, rerr := render(x.f)
			segs := batchSegments(before)
			wasDirty := append([]bool{}, x.dirty...)
			for k := 0; k < x.nBatches(); k++ {
				err := x.create(k)
				if err != nil {
					x.dirty[k] = true
					continue
				}
				x.dirty[k] = false
				x.out.checked++
				x.batchChecks(k)
			}
			if rerr == nil {
				after, _ := render(x.f)
				asegs := batchSegments(after)
				for k := range wasDirty {
					if !wasDirty[k] && !x.dirty[k] && k < len(segs) && k < len(asegs) && segs[k] != asegs[k] {
						x.fail("C05/batch/"+views(x.f)[k].kind+"/repeat-create-changes-rendering", fmt.Sprintf("Create on the already tabulated batch %d changed its records", k), diff(segs[k], asegs[k]), "no change")
					}
				}
				if settled && before != after {
					x.fail("C05/file/batch-create-changes-rendering", "Batch.Create on a fully tabulated file changed the rendered file", diff(before, after), "no change")
				}
			}
			for k := range wasDirty {
				if wasDirty[k] {
					x.stale = true
				}
			}
		case 'F':
			settled := !x.anyDirty() && !x.stale
			before, rerr := render(x.f)
			err := x.f.Create()
			if err == nil && !x.anyDirty() {
				x.out.checked++
				x.fileChecks()
				x.stale = false
				if settled && rerr == nil {
					if after, _ := render(x.f); after != before {
						x.fail("C05/file/repeat-create-changes-rendering", "File.Create on a fully tabulated file changed the rendered file", diff(before, after), "no change")
					}
				}
			}
		case 'A':
			k := (x.s.idx + pos) % x.nBatches()
			x.addEntry(k, pos)
			x.dirty[k] = true
			x.stale = true
		}
		atomic.StoreInt32(&x.out.progress, int32(pos+1))
	}
}

// diff shows the first differing line of two renderings.
func diff(a, b string) string {
	la, lb := strings.Split(a, "\n"), strings.Split(b, "\n")
	for i := 0; i < len(la) || i < len(lb); i++ {
		var x, y string
		if i < len(la) {
			x = la[i]
		}
		if i < len(lb) {
			y = lb[i]
		}
		if x != y {
			return fmt.Sprintf("line %d before: %q after: %q (lines %d -> %d)", i+1, x, y, len(la), len(lb))
		}
	}
	return "identical"
}

func histories(maxLen int) []string {
	out := []string{}
	cur := []string{""}
	for l := 1; l <= maxLen; l++ {
		var next []string
		for _, p := range cur {
			for _, c := range "BFA" {
				next = append(next, p+string(c))
			}
		}
		out = append(out, next...)
		cur = next
	}
	return out
}

var rePanic = regexp.MustCompile(`\[[^\]]*\]|[0-9]+`)

func panicClass(v any) string {
	s := fmt.Sprint(v)
	s = rePanic.ReplaceAllString(s, "")
	return shortMsg(strings.TrimPrefix(s, "runtime error: "))
}

type caseRec struct {
	key, class string
	nontrivial bool
	fails      []struct {
		failRec
		input any
	}
}

// runScenario runs every history of one scenario.
func runScenario(s *scenario) []caseRec {
	var out []caseRec
	shape := s.shape()
	perSig := map[string]int{}
	hung := false
	for _, h := range histories(s.maxLen) {
		rec := caseRec{key: shape + "|" + h}
		if hung {
			rec.class = "skipped: an earlier history of this scenario did not terminate"
			out = append(out, rec)
			continue
		}
		f, m, err := s.build()
		if err != nil {
			rec.class = "generator-error"
			rec.fails = append(rec.fails, struct {
				failRec
				input any
			}{failRec{"C05/generator", "generator failed", err.Error(), "a valid file"}, shape})
			out = append(out, rec)
			break
		}
		o := &outcome{}
		x := &runner{s: s, f: f, m: m, hist: h, out: o}
		done := make(chan any, 1)
		go func() {
			defer func() { done <- recover() }()
			x.run()
		}()
		opName := func() string {
			p := int(atomic.LoadInt32(&o.progress))
			if p < len(h) {
				return map[byte]string{'B': "batch-create", 'F': "file-create", 'A': "add-entry"}[h[p]]
			}
			return "end"
		}
		off := "no-offset"
		if s.offset != "" {
			off = "offset"
		}
		if s.offsetNam {
			off = "offset+first-entry-named-OFFSET"
		}
		var fails []failRec
		timer := time.NewTimer(hangTimeout)
		select {
		case pv := <-done:
			timer.Stop()
			fails = o.fails
			if pv != nil {
				fails = append(fails, failRec{"C05/panic/" + opName() + "/" + off + "/" + panicClass(pv),
					fmt.Sprintf("history %s panicked in operation %d", h, atomic.LoadInt32(&o.progress)+1), fmt.Sprint(pv), "no panic"})
			}
		case <-timer.C:
			hung = true
			fails = []failRec{{"C05/hang/" + opName() + "/" + off,
				fmt.Sprintf("history %s did not finish operation %d within %v", h, atomic.LoadInt32(&o.progress)+1, hangTimeout), "still running", "termination"}}
		}
		for _, fr := range fails {
			perSig[fr.sig]++
			var in any = map[string]any{"scenario": shape, "history": h}
			if perSig[fr.sig] <= 2 {
				if f0, _, err := s.build(); err == nil {
					mm := FileInput(f0)
					mm["scenario"], mm["history"], mm["seed"] = shape, h, s.seed
					mm["note"] = "the file as assembled, before any Create; B = Create on every batch in order, F = File.Create, A = append a copy of the first entry with an empty trace number"
					in = mm
				}
			}
			rec.fails = append(rec.fails, struct {
				failRec
				input any
			}{fr, in})
		}
		kinds := "std"
		switch {
		case s.opts.SECs[0] == ach.ADV:
			kinds = "ADV"
		case s.opts.SECs[0] == ach.IAT:
			kinds = "IAT"
		}
		tag := "no-offset"
		if s.offset != "" {
			tag = "offset"
		}
		if s.big {
			tag += "+big"
		}
		rec.class = fmt.Sprintf("%s/%s/len=%d", kinds, tag, len(h))
		if hung {
			rec.class += ":hang"
		}
		rec.nontrivial = !hung && o.checked > 0
		out = append(out, rec)
	}
	return out
}

func run(t *T) {
	servicePhase(t)
	n := t.Budget(300)
	scs := plan(t, n)
	results := make([][]caseRec, len(scs))
	var wg sync.WaitGroup
	next := int64(-1)
	for w := 0; w < runtime.NumCPU(); w++ {
		wg.Add(1)
		go func() {
			defer wg.Done()
			for {
				i := int(atomic.AddInt64(&next, 1))
				if i >= len(scs) {
					return
				}
				results[i] = runScenario(scs[i])
			}
		}()
	}
	wg.Wait()
	for _, rs := range results {
		for _, c := range rs {
			for _, f := range c.fails {
				t.Fail(f.sig, f.what, f.input, f.obs, f.required)
			}
			t.Case(c.key, c.class, c.nontrivial)
		}
	}
}
