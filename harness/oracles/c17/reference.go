package c17

import (
	"encoding/json"
	"fmt"
	"net/http"
	"sort"
	"strings"

	"github.com/moov-io/ach"
)

func diffAt(a, b string) string {
	n := len(a)
	if len(b) < n {
		n = len(b)
	}
	i := 0
	for i < n && a[i] == b[i] {
		i++
	}
	lo := i - 80
	if lo < 0 {
		lo = 0
	}
	cut := func(s string) string {
		hi := i + 160
		if hi > len(s) {
			hi = len(s)
		}
		if lo > len(s) {
			return ""
		}
		return s[lo:hi]
	}
	return fmt.Sprintf("first difference at byte %d (lengths %d / %d): server …%s… reference …%s…", i, len(a), len(b), cut(a), cut(b))
}

// sameJSON compares a decoded server value with a decoded reference value.
func sameJSON(got, want any) (bool, string) {
	g, w := canon(got), canon(want)
	if g == w {
		return true, ""
	}
	return false, diffAt(g, w)
}

func status(r resp) string { return fmt.Sprintf("status %d %s", r.code, clipS(string(r.body))) }

// reference computes what the library says about the request (this may panic:
// the caller recovers) and returns the comparison with the server's response,
// which also advances the model.
func (x *runner) reference(o op) func(r resp) {
	m := x.m
	rc := m.files[o.id]
	switch o.kind {
	case "create":
		return x.refCreate(o)
	case "list":
		return func(r resp) { x.checkList(o, r) }
	case "segment-body":
		return x.refSegmentBody(o)
	}
	// all others address a present file
	f, _ := rc.materialize()
	switch o.kind {
	case "get":
		want := fileJSON(f)
		return func(r resp) {
			if !r.ok() {
				x.fail("get/stored-file-not-returned", "GET of a stored file failed", o, status(r), "200 with the file")
				return
			}
			if same, d := sameJSON(r.obj()["file"], want); !same {
				x.fail("get/file-differs", "GET does not return the stored file as the library renders it", o, d, "the JSON of the reference file")
			}
		}
	case "contents":
		// service.go documents that the file is tabulated (File.Create) before it is written
		err := f.Create()
		var text string
		if err == nil {
			text, err = libWrite(f, o.crlf)
		}
		return func(r resp) {
			rc.log = append(rc.log, mutation{kind: "contents", crlf: o.crlf})
			le := "LF"
			if o.crlf {
				le = "CRLF"
			}
			if err != nil {
				// the property does not say how a file the writer refuses is answered (the server
				// sends 200 with an empty body); only a served text would contradict the library
				if r.ok() && len(r.body) > 0 {
					x.fail("contents/served-a-file-the-writer-rejects", "contents served although the library refuses to build or write the stored file", o, status(r), "an error: "+err.Error())
				}
				return
			}
			if !r.ok() {
				x.fail("contents/error-for-writable-file/"+le, "contents failed although the library writer writes the stored file", o, status(r), "200 with the writer's output")
				return
			}
			if string(r.body) != text {
				x.fail("contents/text-differs/"+le, "contents differ from the library writer's output", o, diffAt(string(r.body), text), "the library writer's output")
			}
		}
	case "validate":
		opts := optsOf(o.query, o.body)
		err := f.ValidateWith(opts)
		return func(r resp) {
			rc.log = append(rc.log, mutation{kind: "validate", query: o.query, body: o.body})
			if err == nil {
				if !r.ok() {
					x.fail("validate/valid-file-rejected", "validate endpoint rejects a file that File.ValidateWith accepts with the same options", o, status(r), "200")
				}
				return
			}
			if r.ok() {
				x.fail("validate/invalid-file-accepted", "validate endpoint accepts a file that File.ValidateWith rejects with the same options", o, status(r), "an error: "+err.Error())
				return
			}
			got, _ := r.obj()["error"].(string)
			if !strings.Contains(got, err.Error()) {
				x.fail("validate/error-differs", "validate endpoint reports another error than File.ValidateWith", o, got, err.Error())
			}
		}
	case "build":
		err := f.Create()
		want := fileJSON(f)
		return func(r resp) {
			rc.log = append(rc.log, mutation{kind: "build"})
			if (err == nil) != r.ok() {
				x.fail("build/result-differs", "build endpoint and File.Create disagree on success", o, status(r), "File.Create: "+errString(err))
				return
			}
			if err == nil {
				if same, d := sameJSON(r.obj()["file"], want); !same {
					x.fail("build/file-differs", "the built file differs from File.Create on the stored file", o, d, "the JSON of the reference file after Create")
				}
			}
		}
	case "add-batch":
		b, perr := parseBatch(o.body)
		return func(r resp) {
			if perr != nil {
				if r.ok() {
					x.fail("add-batch/invalid-batch-accepted", "a batch the library rejects was added", o, status(r), "an error: "+perr.Error())
					m.state[o.id] = stUnknown
				}
				return
			}
			id := b.GetHeader().ID
			if id != "" && findBatch(f, id) != nil {
				if r.ok() {
					x.fail("add-batch/duplicate-batch-id-accepted", "a batch whose ID is already in the file was added", o, status(r), "an error: already exists")
					m.state[o.id] = stUnknown
				}
				return
			}
			if !r.ok() {
				x.fail("add-batch/valid-batch-refused", "a valid batch with a fresh ID was refused", o, status(r), "200 with the batch ID")
				return
			}
			got, _ := r.obj()["id"].(string)
			if id != "" && got != id {
				x.fail("add-batch/id-differs", "the batch was stored under another ID than its own", o, got, id)
			}
			if got == "" {
				got = id
			}
			rc.log = append(rc.log, mutation{kind: "add-batch", body: o.body, batchID: got})
		}
	case "get-batch":
		b := findBatch(f, o.batchID)
		var want any
		if b != nil {
			want = batchJSON(b)
		}
		return func(r resp) {
			if b == nil {
				if r.ok() {
					x.fail("get-batch/absent-batch-found", "a batch that is not in the file was returned", o, status(r), "not found")
				}
				return
			}
			if !r.ok() {
				x.fail("get-batch/stored-batch-not-found", "a batch of the file was not returned", o, status(r), "200 with the batch")
				return
			}
			if same, d := sameJSON(r.obj()["batch"], want); !same {
				x.fail("get-batch/batch-differs", "the returned batch differs from the one in the reference file", o, d, "the JSON of the reference batch")
			}
		}
	case "list-batches":
		want := []any{}
		for _, b := range f.Batches {
			want = append(want, batchJSON(b))
		}
		return func(r resp) {
			if !r.ok() {
				x.fail("list-batches/failed", "listing the batches of a stored file failed", o, status(r), "200 with the batches")
				return
			}
			got, _ := r.obj()["batches"].([]any)
			if got == nil {
				got = []any{}
			}
			if same, d := sameJSON(got, want); !same {
				x.fail("list-batches/list-differs", "the listed batches differ from Batches of the reference file", o, d, "the JSON of the reference batches")
			}
		}
	case "delete-batch":
		b := findBatch(f, o.batchID)
		return func(r resp) {
			if b == nil {
				if r.ok() {
					x.fail("delete-batch/absent-batch-deleted", "deleting a batch that is not in the file succeeded", o, status(r), "not found")
				}
				return
			}
			if !r.ok() {
				x.fail("delete-batch/stored-batch-not-deleted", "deleting a batch of the file failed", o, status(r), "200")
				return
			}
			rc.log = append(rc.log, mutation{kind: "delete-batch", batchID: o.batchID})
		}
	case "flatten":
		var ff *ach.File
		err := f.Create()
		ties := duplicateBatchNumbers(f)
		if err == nil {
			ff, err = f.FlattenBatches()
		}
		var want any
		if err == nil {
			want = masked(fileJSON(ff))
		}
		return func(r resp) {
			rc.log = append(rc.log, mutation{kind: "flatten"})
			if ties {
				// Flatten orders batches of equal batch number by map iteration and renumbers the
				// receiver's batches accordingly: what the stored file looks like now is not determined
				m.state[o.id] = stUnknown
			}
			if (err == nil) != r.ok() {
				x.fail("flatten/result-differs", "flatten endpoint and File.FlattenBatches disagree on success", o, status(r), "FlattenBatches: "+errString(err))
				return
			}
			if err != nil {
				return
			}
			mm := r.obj()
			if ties {
				// Flatten orders batches of equal batch number by map iteration: not a function of the file
				return
			}
			if same, d := sameJSON(masked(mm["file"]), want); !same {
				x.fail("flatten/file-differs", "the flattened file differs from File.FlattenBatches on the stored file (ids and creation stamps masked)", o, d, "the JSON of the library's flattened file")
			}
			if id, _ := mm["id"].(string); id != "" {
				m.derived[id] = true
			}
		}
	case "segment-id":
		var cf, df *ach.File
		err := f.Create()
		if err == nil {
			cf, df, err = f.SegmentFile(nil)
		}
		chk := x.checkSegment(o, cf, df, err)
		return func(r resp) {
			rc.log = append(rc.log, mutation{kind: "segment"})
			chk(r)
		}
	}
	return func(r resp) {}
}

func duplicateBatchNumbers(f *ach.File) bool {
	seen := map[int]bool{}
	for _, b := range f.Batches {
		n := b.GetHeader().BatchNumber
		if seen[n] {
			return true
		}
		seen[n] = true
	}
	for i := range f.IATBatches {
		n := f.IATBatches[i].GetHeader().BatchNumber
		if seen[n] {
			return true
		}
		seen[n] = true
	}
	return false
}

func errString(err error) string {
	if err == nil {
		return "nil"
	}
	return err.Error()
}

func (x *runner) checkSegment(o op, cf, df *ach.File, err error) func(r resp) {
	// the endpoint answers null for a side that got no batches (the library returns an empty file without ID)
	var wantC, wantD any
	if err == nil && cf != nil && cf.ID != "" {
		wantC = masked(fileJSON(cf))
	}
	if err == nil && df != nil && df.ID != "" {
		wantD = masked(fileJSON(df))
	}
	return func(r resp) {
		if (err == nil) != r.ok() {
			x.fail(o.kind+"/result-differs", "segment endpoint and File.SegmentFile disagree on success", o, status(r), "SegmentFile: "+errString(err))
			return
		}
		if err != nil {
			return
		}
		mm := r.obj()
		if same, d := sameJSON(masked(mm["creditFile"]), wantC); !same {
			x.fail(o.kind+"/credit-file-differs", "the credit file differs from File.SegmentFile (ids and creation stamps masked)", o, d, "the JSON of the library's credit file")
		}
		if same, d := sameJSON(masked(mm["debitFile"]), wantD); !same {
			x.fail(o.kind+"/debit-file-differs", "the debit file differs from File.SegmentFile (ids and creation stamps masked)", o, d, "the JSON of the library's debit file")
		}
		for _, k := range []string{"creditFileID", "debitFileID"} {
			if id, _ := mm[k].(string); id != "" {
				x.m.derived[id] = true
			}
		}
	}
}

func (x *runner) refSegmentBody(o op) func(r resp) {
	var f *ach.File
	var err error
	if o.isJSON {
		var kv map[string]json.RawMessage
		err = json.Unmarshal(o.body, &kv)
		if err == nil {
			var vo *ach.ValidateOpts
			if raw, ok := kv["validateOpts"]; ok {
				vo = &ach.ValidateOpts{}
				err = json.Unmarshal(raw, vo)
			}
			if err == nil {
				f, err = ach.FileFromJSONWith(kv["file"], vo)
				if err == nil && vo != nil {
					f.SetValidation(vo)
				}
			}
		}
	} else {
		var ff ach.File
		ff, err = ach.NewReader(strings.NewReader(string(o.body))).Read()
		f = &ff
	}
	var cf, df *ach.File
	if err == nil {
		err = f.Create()
	}
	if err == nil {
		cf, df, err = f.SegmentFile(nil)
	}
	return x.checkSegment(o, cf, df, err)
}

func (x *runner) refCreate(o op) func(r resp) {
	m := x.m
	f, perr := parseCreate(o.isJSON, o.body, o.query)
	id := o.id
	if id == "create" {
		id = f.ID // JSON bodies may carry their own; otherwise the server generates one
	} else {
		f.ID = id
	}
	want := fileJSON(f)
	return func(r resp) {
		mm := r.obj()
		gotID, _ := mm["id"].(string)
		if gotID == "" {
			gotID, _ = mm["ID"].(string)
		}
		if id == "" { // server-generated ID
			if perr != nil || !r.ok() || gotID == "" {
				if perr == nil && !r.ok() {
					x.fail("create/valid-file-refused", "creating a valid file under a generated ID failed", o, status(r), "200 with the new ID")
				}
				if gotID != "" {
					m.state[gotID] = stUnknown
				}
				return
			}
			id = gotID
			want.(map[string]any)["id"] = id
		}
		st := m.state[id]
		switch {
		case st == stPresent:
			if r.ok() {
				x.fail("create/existing-id-accepted", "creating an ID that already exists succeeded", o, status(r), "refused: already exists")
				m.state[id] = stUnknown
			}
			// the probe after this step checks that the stored file is unaltered
		case perr != nil:
			// property silent on what a rejected body leaves behind
			m.state[id] = stUnknown
			delete(m.files, id)
		case st == stUnknown:
			if r.ok() {
				x.adopt(o, id, r, want)
			}
		default: // absent, valid
			if !r.ok() {
				x.fail("create/valid-file-refused", "creating a valid file under a free ID failed", o, status(r), "200 with the file")
				m.state[id] = stUnknown
				return
			}
			x.adopt(o, id, r, want)
		}
	}
}

// adopt records a successful create and compares the echoed file.
func (x *runner) adopt(o op, id string, r resp, want any) {
	mm := r.obj()
	if got, _ := mm["id"].(string); got != id {
		x.fail("create/id-differs", "the file was created under another ID than requested", o, got, id)
	}
	if same, d := sameJSON(mm["file"], want); !same {
		x.fail("create/file-differs", "the file echoed by create differs from the library's reading of the body", o, d, "the JSON of the reference file")
	}
	x.m.state[id] = stPresent
	x.m.files[id] = &recipe{json: o.isJSON, body: o.body, query: o.query, id: id}
	known := false
	for _, k := range x.ids {
		if k == id {
			known = true
		}
	}
	if !known {
		x.ids = append(x.ids, id)
	}
}

// checkList compares GET /files with the model: every present ID exactly once and
// equal to its reference, no absent ID, IDs of Flatten/Segment results allowed.
func (x *runner) checkList(o op, r resp) {
	if !r.ok() {
		x.fail("list/failed", "listing files failed", o, status(r), "200")
		return
	}
	files, _ := r.obj()["files"].([]any)
	seen := map[string]int{}
	for _, fv := range files {
		fm, _ := fv.(map[string]any)
		id, _ := fm["id"].(string)
		seen[id]++
		switch st, tracked := x.m.state[id]; {
		case tracked && st == stPresent:
			var want any
			if safely(func() { f, _ := x.m.files[id].materialize(); want = fileJSON(f) }) {
				continue
			}
			if same, d := sameJSON(fv, want); !same {
				x.fail("list/file-differs", "a listed file differs from the stored file as the library renders it", o, d, "the JSON of the reference file")
			}
		case tracked && st == stAbsent:
			x.fail("list/lists-a-deleted-id", "the list contains an ID that has been deleted or never created", o, id, "not listed")
		case !tracked && !x.m.derived[id]:
			x.fail("list/lists-an-unknown-file", "the list contains a file nobody created", o, id, "only created files and Flatten/Segment results")
		}
	}
	var ids []string
	for id, st := range x.m.state {
		if st == stPresent {
			ids = append(ids, id)
		}
	}
	sort.Strings(ids)
	for _, id := range ids {
		if seen[id] != 1 {
			x.fail("list/stored-file-not-listed-once", "a stored file is not listed exactly once", o, fmt.Sprintf("%s listed %d times", id, seen[id]), "once")
		}
	}
}

// probe GETs every tracked ID after a step and compares with the model.
func (x *runner) probe(after op) {
	for _, id := range x.ids {
		st := x.m.state[id]
		if st == stUnknown {
			continue
		}
		o := op{kind: "get", id: id}
		r := do(x.h, o)
		if st == stAbsent {
			if r.code != http.StatusNotFound {
				x.trail = append(x.trail, "probe "+o.String())
				x.fail("probe/absent-id-found-after-"+after.kind, "an ID that is not stored is found after the request", o, status(r), "404")
				x.m.state[id] = stUnknown // reported once; stop comparing this ID
			}
			continue
		}
		var want any
		if safely(func() { f, _ := x.m.files[id].materialize(); want = fileJSON(f) }) {
			continue
		}
		if !r.ok() {
			x.trail = append(x.trail, "probe "+o.String())
			x.fail("probe/stored-file-lost-after-"+after.kind, "a stored file is no longer returned after the request", o, status(r), "200 with the stored file")
			continue
		}
		if same, d := sameJSON(r.obj()["file"], want); !same {
			x.trail = append(x.trail, "probe "+o.String())
			x.fail("probe/stored-file-changed-after-"+after.kind, "the stored file differs from the reference after the request", o, d, "the JSON of the reference file")
			// resynchronising is impossible: stop comparing this ID
			x.m.state[id] = stUnknown
		}
	}
}
