package c17

import (
	"fmt"
	"net/http"

	"verif/harness/gen"
	. "verif/harness/oracle"
)

// Phase "source untouched": the store is a map from ID to file, and flatten / segment put their *results* under new
// IDs — so after POST /files/{id}/flatten (or /segment, GET, validate) the text GET /files/{id}/contents returns for
// the source ID is what it returned before, and a source that validated still validates.  The files have several
// batches drawn from a small header pool (so Flatten really merges and renumbers) or a hole in their batch numbers
// (a middle batch deleted through the API).
func runSourceUntouched(t *T) {
	n := t.Budget(80)
	for c := 0; c < n; c++ {
		r := t.R.Fork(uint64(900000 + c))
		o := gen.Opts{MinBatches: 3, MaxBatches: 5, MaxEntries: 2, HeaderPool: 2, SECs: []string{"PPD", "CCD", "WEB"}}
		if c%3 == 1 {
			o.SECs = []string{"IAT"}
			o.HeaderPool = 0
		}
		f, err := gen.File(r, o)
		if err != nil {
			continue
		}
		text, err := gen.Write(f, false)
		if err != nil {
			continue
		}
		x := &runner{t: t, h: newHandler(), m: newModel()}
		id := "src"
		send := func(o op) resp {
			x.trail = append(x.trail, o.String())
			return do(x.h, o)
		}
		if cr := send(op{kind: "create", id: id, body: text, note: "generated " + gen.Describe(f)}); !cr.ok() {
			t.Case(fmt.Sprintf("untouched %d create-refused", c), "source-untouched create refused (not compared)", false)
			continue
		}
		variant := "merge"
		if c%2 == 1 {
			// delete a middle batch so that the numbering has a hole
			lb := send(op{kind: "list-batches", id: id})
			if mm := lb.obj(); mm != nil {
				if l, _ := mm["batches"].([]any); len(l) >= 3 {
					if bo, _ := l[1].(map[string]any); bo != nil {
						if hdr, _ := bo["batchHeader"].(map[string]any); hdr != nil {
							if bid, _ := hdr["id"].(string); bid != "" {
								send(op{kind: "delete-batch", id: id, batchID: bid})
								variant = "hole"
							}
						}
					}
				}
			}
		}
		send(op{kind: "build", id: id})
		before := send(op{kind: "contents", id: id})
		vBefore := send(op{kind: "validate", id: id})
		if !before.ok() {
			t.Case(fmt.Sprintf("untouched %d %s", c, variant), "source-untouched "+variant+" contents-refused (not compared)", false)
			continue
		}
		for _, kind := range []string{"flatten", "segment-id", "get", "validate"} {
			req := op{kind: kind, id: id}
			res := send(req)
			after := send(op{kind: "contents", id: id})
			vAfter := send(op{kind: "validate", id: id})
			if res.code == -1 || after.code == -1 {
				continue // panics are C06's business
			}
			if string(after.body) != string(before.body) || after.code != before.code {
				x.fail(kind+"/stored-source-changed", "the file stored under the source ID changed after a request that stores its result under new IDs", req,
					fmt.Sprintf("contents after: status %d %s", after.code, clipS(string(after.body))), fmt.Sprintf("contents as before: status %d %s", before.code, clipS(string(before.body))))
				break
			}
			if vBefore.code == http.StatusOK && vAfter.code != http.StatusOK {
				x.fail(kind+"/stored-source-invalidated", "the file stored under the source ID validated before the request and does not afterwards", req,
					fmt.Sprintf("validate: status %d %s", vAfter.code, clipS(string(vAfter.body))), "200 as before")
				break
			}
		}
		t.Case(fmt.Sprintf("untouched %d %s %s", c, variant, gen.Describe(f)), "source-untouched "+variant, vBefore.code == http.StatusOK)
	}
}
