// Package c17 holds the oracle for property C17: the HTTP server is a faithful
// store of files, compared request by request with a reference model driven by
// the library.
package c17

import (
	"bytes"
	"encoding/json"
	"errors"
	"fmt"
	"net/url"
	"strconv"
	"strings"

	"github.com/moov-io/ach"
)

// ---------- canonical JSON ----------

func decodeJSON(raw []byte) (any, error) {
	var v any
	dec := json.NewDecoder(bytes.NewReader(raw))
	dec.UseNumber()
	err := dec.Decode(&v)
	return v, err
}

// canon re-encodes a decoded JSON value (object keys sorted by encoding/json).
func canon(v any) string {
	out, _ := json.Marshal(v)
	return string(out)
}

// masked removes generated identifiers and clock-derived stamps from the JSON of
// a file produced by Flatten or Segment (both stamp a new ID and the current time).
func masked(v any) any {
	switch m := v.(type) {
	case map[string]any:
		out := map[string]any{}
		for k, val := range m {
			switch k {
			case "id", "ID":
			case "fileCreationDate", "fileCreationTime":
				out[k] = "masked"
			default:
				out[k] = masked(val)
			}
		}
		return out
	case []any:
		out := make([]any, len(m))
		for i := range m {
			out[i] = masked(m[i])
		}
		return out
	}
	return v
}

// fileJSON is the decoded JSON of a file as the library marshals it.
func fileJSON(f *ach.File) any {
	if f == nil {
		return nil
	}
	bs, err := json.Marshal(f)
	if err != nil {
		return "marshal-error:" + err.Error()
	}
	v, _ := decodeJSON(bs)
	return v
}

func batchJSON(b ach.Batcher) any {
	bs, err := json.Marshal(b)
	if err != nil {
		return "marshal-error:" + err.Error()
	}
	v, _ := decodeJSON(bs)
	return v
}

// ---------- validate options from a query string (the documented names) ----------

var optSetters = map[string]func(o *ach.ValidateOpts, v bool){
	"skipAll":                          func(o *ach.ValidateOpts, v bool) { o.SkipAll = v },
	"requireABAOrigin":                 func(o *ach.ValidateOpts, v bool) { o.RequireABAOrigin = v },
	"bypassOrigin":                     func(o *ach.ValidateOpts, v bool) { o.BypassOriginValidation = v },
	"bypassOriginValidation":           func(o *ach.ValidateOpts, v bool) { o.BypassOriginValidation = v },
	"bypassDestination":                func(o *ach.ValidateOpts, v bool) { o.BypassDestinationValidation = v },
	"bypassDestinationValidation":      func(o *ach.ValidateOpts, v bool) { o.BypassDestinationValidation = v },
	"customTraceNumbers":               func(o *ach.ValidateOpts, v bool) { o.CustomTraceNumbers = v },
	"allowZeroBatches":                 func(o *ach.ValidateOpts, v bool) { o.AllowZeroBatches = v },
	"allowMissingFileHeader":           func(o *ach.ValidateOpts, v bool) { o.AllowMissingFileHeader = v },
	"allowMissingFileControl":          func(o *ach.ValidateOpts, v bool) { o.AllowMissingFileControl = v },
	"bypassCompanyIdentificationMatch": func(o *ach.ValidateOpts, v bool) { o.BypassCompanyIdentificationMatch = v },
	"customReturnCodes":                func(o *ach.ValidateOpts, v bool) { o.CustomReturnCodes = v },
	"unequalServiceClassCode":          func(o *ach.ValidateOpts, v bool) { o.UnequalServiceClassCode = v },
	"unorderedBatchNumbers":            func(o *ach.ValidateOpts, v bool) { o.AllowUnorderedBatchNumbers = v },
	"allowUnorderedBatchNumbers":       func(o *ach.ValidateOpts, v bool) { o.AllowUnorderedBatchNumbers = v },
	"allowInvalidCheckDigit":           func(o *ach.ValidateOpts, v bool) { o.AllowInvalidCheckDigit = v },
	"unequalAddendaCounts":             func(o *ach.ValidateOpts, v bool) { o.UnequalAddendaCounts = v },
	"preserveSpaces":                   func(o *ach.ValidateOpts, v bool) { o.PreserveSpaces = v },
	"allowInvalidAmounts":              func(o *ach.ValidateOpts, v bool) { o.AllowInvalidAmounts = v },
	"allowZeroEntryAmount":             func(o *ach.ValidateOpts, v bool) { o.AllowZeroEntryAmount = v },
	"allowSpecialCharacters":           func(o *ach.ValidateOpts, v bool) { o.AllowSpecialCharacters = v },
}

// optsOf mirrors the documented way the server reads validation options: a JSON
// body of ValidateOpts (if the body is one) overlaid with the query parameters.
func optsOf(query string, body []byte) *ach.ValidateOpts {
	o := &ach.ValidateOpts{}
	_ = json.Unmarshal(body, o)
	vals, _ := url.ParseQuery(query)
	for name, set := range optSetters {
		if v := vals.Get(name); v != "" {
			if b, err := strconv.ParseBool(v); err == nil {
				set(o, b)
			}
		}
	}
	return o
}

// ---------- the reference: per file ID a creation recipe plus a log of mutations ----------

// mutation is a request that ran library code on the stored file.  Even reads are
// replayed: the library initialises things lazily (ValidateWith gives an ADV batch a
// BatchControl), and the endpoints work on the stored object itself.
type mutation struct {
	kind    string // "build", "contents", "validate", "flatten", "segment", "add-batch", "delete-batch"
	body    []byte // add-batch: the batch JSON; validate: the options in the body
	query   string // validate: the options in the query
	crlf    bool   // contents
	batchID string // add-batch: the ID the batch got; delete-batch: the ID removed
}

type recipe struct {
	json  bool
	body  []byte
	query string
	id    string
	log   []mutation
}

const (
	stAbsent = iota
	stPresent
	stUnknown // the property does not say whether the ID is occupied (after a create of an invalid file)
)

type model struct {
	state   map[string]int
	files   map[string]*recipe
	derived map[string]bool // IDs the server gave to Flatten/Segment results
}

func newModel() *model {
	return &model{state: map[string]int{}, files: map[string]*recipe{}, derived: map[string]bool{}}
}

// parseCreate is the library's reading of a create request.
func parseCreate(isJSON bool, body []byte, query string) (*ach.File, error) {
	opts := optsOf(query, body)
	if isJSON {
		f, err := ach.FileFromJSONWith(body, opts)
		if f == nil {
			f = ach.NewFile()
		}
		f.SetValidation(opts)
		return f, err
	}
	rd := ach.NewReader(bytes.NewReader(body))
	rd.SetValidation(opts)
	f, err := rd.Read()
	f.SetValidation(opts)
	return &f, err
}

// batchShim is the envelope used to read a lone batch with FileFromJSON.
const batchShim = `{"fileHeader":{"immediateOriginName":"Test Sender","immediateDestinationName":"Test Dest","fileIDModifier":"1","fileCreationTime":"0437","fileCreationDate":"200217","immediateOrigin":"123456780","immediateDestination":"987654320","id":""},"batches":[%s]}`

// parseBatch reads and validates a lone batch under default validation.
func parseBatch(body []byte) (b ach.Batcher, err error) {
	defer func() {
		if p := recover(); p != nil {
			b, err = nil, fmt.Errorf("panic: %v", p)
		}
	}()
	f, err := ach.FileFromJSON([]byte(fmt.Sprintf(batchShim, string(body))))
	if err != nil {
		return nil, err
	}
	if len(f.Batches) != 1 || f.Batches[0] == nil {
		return nil, errors.New("no batch provided")
	}
	if err := f.Batches[0].Validate(); err != nil {
		return nil, err
	}
	return f.Batches[0], nil
}

// materialize builds a private copy of the stored file by replaying its recipe.
// buildErr is the result of the last "build" in the log (nil if none).
func (rc *recipe) materialize() (f *ach.File, buildErr error) {
	f, _ = parseCreate(rc.json, rc.body, rc.query)
	f.ID = rc.id
	for _, m := range rc.log {
		switch m.kind {
		case "build":
			buildErr = f.Create()
		case "contents":
			if buildErr = f.Create(); buildErr == nil {
				_, _ = libWrite(f, m.crlf)
			}
		case "validate":
			_ = f.ValidateWith(optsOf(m.query, m.body))
		case "flatten": // the library call works on (and renumbers batches of) its receiver
			if buildErr = f.Create(); buildErr == nil {
				_, _ = f.FlattenBatches()
			}
		case "segment":
			if buildErr = f.Create(); buildErr == nil {
				_, _, _ = f.SegmentFile(nil)
			}
		case "add-batch":
			b, err := parseBatch(m.body)
			if err != nil {
				continue
			}
			b.SetID(m.batchID)
			b.GetHeader().ID = m.batchID
			b.GetControl().ID = m.batchID
			f.AddBatch(b)
		case "delete-batch":
			for i := len(f.Batches) - 1; i >= 0; i-- {
				if f.Batches[i].ID() == m.batchID {
					f.Batches = append(f.Batches[:i], f.Batches[i+1:]...)
					break
				}
			}
		}
	}
	return f, buildErr
}

func findBatch(f *ach.File, id string) ach.Batcher {
	for _, b := range f.Batches {
		if b.ID() == id {
			return b
		}
	}
	return nil
}

// libWrite is the library writer's output for the file.
func libWrite(f *ach.File, crlf bool) (text string, err error) {
	defer func() {
		if p := recover(); p != nil {
			err = fmt.Errorf("panic: %v", p)
		}
	}()
	var buf bytes.Buffer
	le := "\n"
	if crlf {
		le = "\r\n"
	}
	w := ach.NewWriterWithOpts(&buf, &ach.WriteOpts{LineEnding: le})
	if err := w.Write(f); err != nil {
		return "", err
	}
	if err := w.Flush(); err != nil {
		return "", err
	}
	return buf.String(), nil
}

func describeOpts(query string) string {
	if query == "" {
		return ""
	}
	return "?" + strings.TrimPrefix(query, "?")
}
