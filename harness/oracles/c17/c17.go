package c17

import (
	"net/url"
	"bytes"
	"encoding/json"
	"fmt"
	"net/http"
	"net/http/httptest"
	"sort"
	"strings"

	kitlog "github.com/go-kit/log"
	"github.com/moov-io/ach"
	"github.com/moov-io/ach/server"
	"verif/harness/gen"
	. "verif/harness/oracle"
)

func init() {
	Register("C17", &Oracle{
		Rule: "seeded request sequences of length 1..12 against one in-process handler built as cmd/server/main.go does (NewRepositoryInMemory(0), NewService, MakeHTTPHandler; httptest, no sockets) on 1..3 explicit file IDs (plus IDs the server generates for POST /files/create) over " +
			"{create NACHA text|JSON, with/without explicit ID, with validateOpts query parameters; get; contents LF|CRLF (X-Line-Ending header); validate GET|POST with options in query and body; build; add/get/list/delete batch; flatten; segment by ID; segment by body (text | JSON wrapper); delete; list}; " +
			"files are generator files of every SEC (all categories, sometimes non-ASCII), valid or made invalid by a seeded mutation. Reference: per ID the creation request plus the log of later requests that run library code on the stored object (build, contents = Create+write as service.go documents, validate, flatten, segment, add batch, delete batch), replayed through the same library calls into a private copy for every comparison; after a Flatten of a file with equal batch numbers (whose outcome depends on map order) the ID is not compared any more. " +
			"A second phase (source untouched) stores multi-batch files with recurring headers or a deleted middle batch and requires that flatten / segment / get / validate leave the contents and the validity of the source ID as they were. " +
			"After every request the response is compared (status class; JSON decoded and re-encoded; Flatten/Segment output with ids and creation stamps masked) and every base ID is probed with GET. " +
			"Not compared (property silent): anything about an ID after a create whose body the library rejects, until that ID is deleted (its state is 'unknown'); error texts other than validate's; status codes beyond success/failure except 404 for GET of a deleted/never created ID; " +
			"the status of list-batches on a missing file; the balance endpoint. distinct = sequence of (request kind, ID slot, file description); non-trivial = at least one compared response on a present file.",
		Run: run,
	})
}

func newHandler() http.Handler {
	repo := server.NewRepositoryInMemory(0, nil)
	svc := server.NewService(repo)
	return server.MakeHTTPHandler(svc, repo, kitlog.NewNopLogger())
}

// ---------- requests ----------

type op struct {
	kind    string
	id      string // file ID addressed ("" for list / segment-body)
	isJSON  bool
	body    []byte
	query   string // without '?'
	crlf    bool
	post    bool
	batchID string
	note    string // description of the payload for the case key
}

func (o op) method() string {
	switch o.kind {
	case "create", "add-batch", "flatten", "segment-id", "segment-body":
		return "POST"
	case "delete", "delete-batch":
		return "DELETE"
	case "validate":
		if o.post {
			return "POST"
		}
	}
	return "GET"
}

func (o op) path() string {
	q := ""
	if o.query != "" {
		q = "?" + o.query
	}
	// IDs are opaque strings: in a path they travel percent-encoded, and the server is to see the decoded ID
	oid, obid := o.id, o.batchID
	o.id, o.batchID = url.PathEscape(oid), url.PathEscape(obid)
	switch o.kind {
	case "create", "get", "delete":
		return "/files/" + o.id + q
	case "contents":
		return "/files/" + o.id + "/contents"
	case "validate":
		return "/files/" + o.id + "/validate" + q
	case "build":
		return "/files/" + o.id + "/build"
	case "add-batch", "list-batches":
		return "/files/" + o.id + "/batches"
	case "get-batch", "delete-batch":
		return "/files/" + o.id + "/batches/" + o.batchID
	case "flatten":
		return "/files/" + o.id + "/flatten"
	case "segment-id":
		return "/files/" + o.id + "/segment"
	case "segment-body":
		return "/segment"
	case "list":
		return "/files"
	}
	return "/"
}

func (o op) String() string {
	s := o.method() + " " + o.path()
	if o.kind == "contents" && o.crlf {
		s += " [X-Line-Ending: CRLF]"
	}
	if len(o.body) > 0 {
		ct := "text/plain"
		if o.isJSON {
			ct = "application/json"
		}
		s += fmt.Sprintf(" [%s, %d bytes: %s]", ct, len(o.body), o.note)
	}
	return s
}

type resp struct {
	code int
	ct   string
	body []byte
}

func do(h http.Handler, o op) (r resp) {
	defer func() {
		if p := recover(); p != nil {
			r = resp{code: -1, body: []byte(fmt.Sprintf("panic: %v", p))}
		}
	}()
	req := httptest.NewRequest(o.method(), o.path(), bytes.NewReader(o.body))
	if len(o.body) > 0 || o.kind == "create" {
		if o.isJSON {
			req.Header.Set("Content-Type", "application/json")
		} else {
			req.Header.Set("Content-Type", "text/plain")
		}
	}
	if o.kind == "contents" && o.crlf {
		req.Header.Set("X-Line-Ending", "CRLF")
	}
	rec := httptest.NewRecorder()
	h.ServeHTTP(rec, req)
	return resp{rec.Code, rec.Header().Get("Content-Type"), rec.Body.Bytes()}
}

func (r resp) ok() bool { return r.code >= 200 && r.code < 300 }

// obj decodes a JSON object response.
func (r resp) obj() map[string]any {
	v, err := decodeJSON(r.body)
	if err != nil {
		return nil
	}
	m, _ := v.(map[string]any)
	return m
}

// ---------- generation of sequences ----------

var optNames = func() []string {
	var out []string
	for k := range optSetters {
		out = append(out, k)
	}
	sort.Strings(out)
	return out
}()

func genQuery(r *gen.Rand, p int) string {
	if !r.Chance(p, 100) {
		return ""
	}
	// one name per option: the outcome of two aliases with different values is the server's business
	alias := map[string]string{"bypassOriginValidation": "bypassOrigin", "bypassDestinationValidation": "bypassDestination", "allowUnorderedBatchNumbers": "unorderedBatchNumbers"}
	used := map[string]bool{}
	var parts []string
	for k := 0; k < r.Range(1, 3); k++ {
		name := gen.Pick(r, optNames)
		c := name
		if a, ok := alias[name]; ok {
			c = a
		}
		if used[c] {
			continue
		}
		used[c] = true
		parts = append(parts, name+"="+gen.Pick(r, []string{"true", "true", "false", "1", "0"}))
	}
	return strings.Join(parts, "&")
}

func genOpts(r *gen.Rand, i int) gen.Opts {
	secs := gen.AllSECs()
	o := gen.Opts{MaxBatches: 3, MaxEntries: 3}
	if r.Chance(2, 3) {
		o.SECs = []string{secs[(i+r.Intn(3))%len(secs)]} // every SEC comes round
	}
	switch r.Intn(4) {
	case 0:
		o.Categories = gen.AllCategories()
	case 1:
		o.Categories = []string{ach.CategoryForward, ach.CategoryReturn}
	}
	o.NonASCII = r.Chance(1, 5)
	o.PresetTraces = r.Chance(1, 3)
	if r.Chance(1, 4) {
		o.HeaderPool = 2
	}
	return o
}

func mutateText(r *gen.Rand, text []byte) []byte {
	lines := strings.Split(strings.TrimRight(string(text), "\n"), "\n")
	switch r.Intn(4) {
	case 0:
		li := r.Intn(len(lines))
		rs := []rune(lines[li])
		if len(rs) > 0 {
			rs[r.Intn(len(rs))] = gen.Pick(r, []rune("0123456789ABCxyz *~"))
			lines[li] = string(rs)
		}
	case 1:
		li := r.Intn(len(lines))
		lines = append(lines[:li], lines[li+1:]...)
	case 2:
		lines = lines[:r.Range(1, len(lines))]
	case 3:
		a, b := r.Intn(len(lines)), r.Intn(len(lines))
		lines[a], lines[b] = lines[b], lines[a]
	}
	return []byte(strings.Join(lines, "\n") + "\n")
}

func mutateJSON(r *gen.Rand, js []byte) []byte {
	out := append([]byte(nil), js...)
	switch r.Intn(3) {
	case 0:
		return out[:r.Intn(len(out))]
	default:
		var pos []int
		for i, c := range out {
			if c >= '0' && c <= '9' {
				pos = append(pos, i)
			}
		}
		for k := 0; k < r.Range(1, 3) && len(pos) > 0; k++ {
			out[pos[r.Intn(len(pos))]] = byte('0' + r.Intn(10))
		}
	}
	return out
}

// payload is a generated file rendered for a request body.
type payload struct {
	isJSON bool
	body   []byte
	note   string
	file   *ach.File
}

func genPayload(r *gen.Rand, i int) (payload, error) {
	f, err := gen.File(r.Fork(7), genOpts(r, i))
	if err != nil {
		return payload{}, err
	}
	p := payload{isJSON: r.Bool(), file: f, note: gen.Describe(f)}
	invalid := r.Chance(15, 100)
	if p.isJSON {
		if r.Chance(1, 3) {
			f.ID = "" // JSON without its own id
		}
		p.body, _ = json.Marshal(f)
		if invalid {
			p.body = mutateJSON(r, p.body)
			p.note += " MUTATED"
		}
	} else {
		p.body, _ = gen.Write(f, r.Chance(1, 4))
		if invalid {
			p.body = mutateText(r, p.body)
			p.note += " MUTATED"
		}
	}
	return p, nil
}

func genBatchBody(r *gen.Rand, i int, batchIDs []string) ([]byte, string, error) {
	o := genOpts(r, i)
	o.MinBatches, o.MaxBatches = 1, 1
	var secs []string
	for _, s := range gen.AllSECs() {
		if s != ach.IAT && s != ach.ADV {
			secs = append(secs, s)
		}
	}
	o.SECs = []string{secs[(i+r.Intn(5))%len(secs)]}
	f, err := gen.File(r.Fork(9), o)
	if err != nil || len(f.Batches) == 0 {
		return nil, "", fmt.Errorf("batch generator: %v", err)
	}
	b := f.Batches[0]
	id := gen.Pick(r, batchIDs)
	if r.Chance(1, 5) {
		id = "" // the server assigns one
	}
	b.SetID(id)
	b.GetHeader().ID = id
	b.GetControl().ID = id
	note := "batch " + b.GetHeader().StandardEntryClassCode + " id=" + id
	if r.Chance(1, 5) {
		// percent signs are ordinary alphanumeric characters of a NACHA field
		b.GetHeader().CompanyDiscretionaryData = gen.Pick(r, []string{"10%% OFF", "2% DISCOUNT", "100%", "%d %s %v", "5 % D"})
		note += " percent-signs"
	}
	body, _ := json.Marshal(b)
	if r.Chance(1, 8) {
		body = mutateJSON(r, body)
		note += " MUTATED"
	}
	return body, note, nil
}

var kinds = []string{"create", "create", "create", "get", "get", "contents", "contents", "validate", "validate", "build", "add-batch", "add-batch",
	"get-batch", "list-batches", "delete-batch", "flatten", "segment-id", "segment-body", "delete", "list"}

// ---------- the run ----------

type runner struct {
	t       *T
	h       http.Handler
	m       *model
	ids     []string // addressable file IDs: base IDs first, then generated ones
	nbase   int
	trail   []string // requests so far, for the failure input
	checked int      // compared responses on present files
	nderiv  int
}

func (x *runner) fail(sig, what string, o op, observed, required string) {
	x.t.Fail("C17/"+sig, what, map[string]any{"requests": append([]string(nil), x.trail...), "last_body": string(o.body)}, observed, required)
}

func run(t *T) {
	n := t.Budget(600)
	for c := 0; c < n; c++ {
		r := t.R.Fork(uint64(c))
		x := &runner{t: t, h: newHandler(), m: newModel()}
		x.nbase = r.Range(1, 3)
		// plain IDs, and IDs that only travel percent-encoded in a path (blank, non-ASCII, '#', '%')
		idPool := []string{"file-1", "file-2", "file-3"}
		batchIDs := []string{"b1", "b2", "bx"}
		if c%4 == 3 {
			idPool = []string{"file 1", "fïle#2", "file-3%41"}
			batchIDs = []string{"b 1", "b2", "b%78"}
		}
		for i := 0; i < x.nbase; i++ {
			x.ids = append(x.ids, idPool[i])
		}
		length := r.Range(1, 12)
		var key strings.Builder
		genErr := ""
		for s := 0; s < length && genErr == ""; s++ {
			kind := gen.Pick(r, kinds)
			if s == 0 && r.Chance(3, 4) {
				kind = "create"
			}
			o := op{kind: kind, id: gen.Pick(r, x.ids)}
			// mostly address stored files, and create mostly on free IDs
			var present, free []string
			for _, id := range x.ids {
				if x.m.state[id] == stPresent {
					present = append(present, id)
				} else if x.m.state[id] == stAbsent {
					free = append(free, id)
				}
			}
			if kind == "create" && len(free) > 0 && r.Chance(3, 4) {
				o.id = gen.Pick(r, free)
			}
			if kind != "create" && len(present) > 0 && r.Chance(5, 6) {
				o.id = gen.Pick(r, present)
			}
			switch kind {
			case "create":
				p, err := genPayload(r, c+s)
				if err != nil {
					genErr = err.Error()
					break
				}
				o.isJSON, o.body, o.note = p.isJSON, p.body, p.note
				o.query = genQuery(r, 30)
				if r.Chance(1, 8) {
					o.id = "create" // the server picks the ID (or takes the one inside the JSON)
				}
			case "contents":
				o.crlf = r.Bool()
			case "validate":
				o.post = r.Bool()
				o.query = genQuery(r, 40)
				if o.post && r.Bool() {
					o.isJSON = true
					o.body = []byte(gen.Pick(r, []string{`{}`, `{"allowInvalidAmounts":true}`, `{"customTraceNumbers":true,"unequalAddendaCounts":true}`,
						`{"bypassOriginValidation":true,"bypassDestinationValidation":true}`, `{"skipAll":true}`, `{"allowMissingFileControl":true,"allowZeroBatches":true}`}))
					o.note = string(o.body)
				}
			case "add-batch":
				body, note, err := genBatchBody(r, c+s, batchIDs)
				if err != nil {
					genErr = err.Error()
					break
				}
				o.isJSON, o.body, o.note = true, body, note
			case "get-batch", "delete-batch":
				o.batchID = gen.Pick(r, batchIDs)
			case "segment-id":
				if r.Bool() {
					o.isJSON, o.body, o.note = true, []byte(`{}`), "{}"
				}
			case "segment-body":
				p, err := genPayload(r, c+s)
				if err != nil {
					genErr = err.Error()
					break
				}
				o.id = ""
				o.isJSON, o.note = p.isJSON, p.note
				if p.isJSON {
					wrapper := `{"file":` + string(p.body)
					if r.Bool() {
						wrapper += `,"opts":{}`
					}
					if r.Chance(1, 3) {
						wrapper += `,"validateOpts":{"allowInvalidAmounts":true,"customTraceNumbers":true}`
					}
					o.body = []byte(wrapper + `}`)
				} else {
					o.body = p.body
				}
			case "list":
				o.id = ""
			}
			if genErr != "" {
				break
			}
			slot := "-"
			for i, id := range x.ids {
				if id == o.id {
					slot = fmt.Sprint(i)
				}
			}
			fmt.Fprintf(&key, "%s@%s(%s) ", kind, slot, o.note)
			x.step(o)
			x.probe(o)
		}
		if genErr != "" {
			t.Fail("C17/generator", "generator failed", nil, genErr, "a valid file")
			continue
		}
		t.Case(key.String(), fmt.Sprintf("sequence len=%s ids=%d", lenBucket(length), x.nbase), x.checked > 0)
	}
	runSourceUntouched(t)
}

func lenBucket(n int) string {
	switch {
	case n <= 3:
		return "1..3"
	case n <= 6:
		return "4..6"
	case n <= 9:
		return "7..9"
	}
	return "10..12"
}

// safely runs a reference computation; a panic of the library inside the
// reference makes the step incomparable (it is the business of other properties).
func safely(f func()) (panicked bool) {
	defer func() {
		if p := recover(); p != nil {
			panicked = true
		}
	}()
	f()
	return false
}

func (x *runner) step(o op) {
	x.trail = append(x.trail, o.String())
	r := do(x.h, o)
	if o.kind == "flatten" || o.kind == "segment-id" || o.kind == "segment-body" {
		// whatever else happens, remember the IDs under which the server stored the results
		if mm := r.obj(); mm != nil {
			for _, k := range []string{"id", "creditFileID", "debitFileID"} {
				if id, _ := mm[k].(string); id != "" {
					x.m.derived[id] = true
				}
			}
		}
	}
	class := "request " + o.kind
	defer func() { x.t.Case(fmt.Sprintf("%d %s", len(x.trail), o.String()), class, false) }()
	m := x.m
	st := m.state[o.id]
	mutating := o.kind == "create" || o.kind == "build" || o.kind == "add-batch" || o.kind == "delete-batch" || o.kind == "contents" || o.kind == "validate" || o.kind == "flatten" || o.kind == "segment-id"
	if o.id != "" && o.kind != "create" {
		switch st {
		case stUnknown:
			class += " on-unknown-id (not compared)"
			if o.kind == "delete" && r.code != -1 {
				m.state[o.id] = stAbsent
				delete(m.files, o.id)
			}
			return
		case stAbsent:
			class += " on-absent-id"
			switch {
			case r.code == -1:
				x.fail(o.kind+"/handler-panic", "the handler panicked on a request for an ID that is not stored", o, string(r.body), "an error response")
			case o.kind == "get":
				if r.code != http.StatusNotFound {
					x.fail("get/absent-id-not-404", "GET of an ID that was never created or has been deleted", o, fmt.Sprintf("status %d %s", r.code, clipS(string(r.body))), "404 not found")
				}
			case o.kind == "list-batches":
				if mm := r.obj(); r.ok() && mm != nil {
					if l, _ := mm["batches"].([]any); len(l) > 0 {
						x.fail("list-batches/absent-id-has-batches", "batches listed for an ID that is not stored", o, clipS(string(r.body)), "no batches")
					}
				}
			case o.kind == "delete":
			case o.kind == "contents" && r.ok():
				x.fail("contents/absent-id-answers-200", "contents of an ID that is not stored is answered 200 OK", o, fmt.Sprintf("status %d, body of %d bytes", r.code, len(r.body)), "an error: the ID is not found")
			default:
				if r.ok() {
					x.fail(o.kind+"/absent-id-succeeded", "a request on an ID that is not stored succeeded", o, fmt.Sprintf("status %d %s", r.code, clipS(string(r.body))), "an error: the ID is not found")
				}
			}
			return
		}
	}
	if o.kind == "delete" {
		class += " present"
		if r.code == -1 {
			x.fail("delete/handler-panic", "the handler panicked", o, string(r.body), "a response")
			m.state[o.id] = stUnknown
			return
		}
		m.state[o.id] = stAbsent
		delete(m.files, o.id)
		return
	}
	// the library's answer first; a panic of the library itself makes the step incomparable
	var check func(r resp)
	if safely(func() { check = x.reference(o) }) {
		class += " (library panics in the reference, not compared)"
		if mutating && o.id != "create" {
			m.state[o.id] = stUnknown
		}
		return
	}
	if r.code == -1 {
		class += " handler-panic"
		x.fail(o.kind+"/handler-panic", "the handler panicked although the corresponding library calls do not", o, string(r.body), "a response")
		if mutating && o.id != "create" {
			m.state[o.id] = stUnknown
		}
		return
	}
	if o.id != "" && st == stPresent {
		class += " present"
		x.checked++
	}
	check(r)
}

func clipS(s string) string {
	if len(s) > 400 {
		return s[:400] + "…"
	}
	return s
}
