// Package c17 holds the oracle for property C17.
package c17
