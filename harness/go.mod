module verif/harness

go 1.23.0

require (
	github.com/moov-io/ach v0.0.0
	github.com/moov-io/base v0.54.3
)

require (
	github.com/anishathalye/porcupine v1.3.0
	github.com/beorn7/perks v1.0.1 // indirect
	github.com/cespare/xxhash/v2 v2.3.0 // indirect
	github.com/go-kit/kit v0.13.0 // indirect
	github.com/go-kit/log v0.2.1
	github.com/go-logfmt/logfmt v0.6.0 // indirect
	github.com/gorilla/mux v1.8.1 // indirect
	github.com/igrmk/treemap/v2 v2.0.1 // indirect
	github.com/moov-io/iso3166 v0.2.1
	github.com/moov-io/iso4217 v0.3.2
	github.com/munnerz/goautoneg v0.0.0-20191010083416-a7dc8b61c822 // indirect
	github.com/prometheus/client_golang v1.22.0 // indirect
	github.com/prometheus/client_model v0.6.1 // indirect
	github.com/prometheus/common v0.62.0 // indirect
	github.com/prometheus/procfs v0.15.1 // indirect
	github.com/rickar/cal/v2 v2.1.22 // indirect
	golang.org/x/exp v0.0.0-20240707233637-46b078467d37 // indirect
	golang.org/x/net v0.39.0 // indirect
	golang.org/x/sync v0.13.0 // indirect
	golang.org/x/sys v0.32.0 // indirect
	golang.org/x/text v0.24.0 // indirect
	google.golang.org/protobuf v1.36.5 // indirect
)

replace github.com/moov-io/ach => /repo
