module verif/harness

go 1.23.0

require github.com/moov-io/ach v0.0.0

require (
	github.com/igrmk/treemap/v2 v2.0.1 // indirect
	github.com/moov-io/base v0.54.3 // indirect
	github.com/moov-io/iso3166 v0.2.1 // indirect
	github.com/moov-io/iso4217 v0.3.2 // indirect
	github.com/rickar/cal/v2 v2.1.22 // indirect
	golang.org/x/exp v0.0.0-20240707233637-46b078467d37 // indirect
	golang.org/x/net v0.39.0 // indirect
	golang.org/x/sync v0.13.0 // indirect
	golang.org/x/text v0.24.0 // indirect
)

replace github.com/moov-io/ach => /repo
