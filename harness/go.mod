module verif/harness

go 1.23.0

require github.com/moov-io/ach v0.0.0

replace github.com/moov-io/ach => /repo
