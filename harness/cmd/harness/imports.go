package main

import (
	_ "verif/harness/oracles/c01"
	_ "verif/harness/oracles/c02"
	_ "verif/harness/oracles/c03"
	_ "verif/harness/oracles/c04"
	_ "verif/harness/oracles/c05"
	_ "verif/harness/oracles/c06"
	_ "verif/harness/oracles/c07"
	_ "verif/harness/oracles/c08"
	_ "verif/harness/oracles/c09"
	_ "verif/harness/oracles/c10"
	_ "verif/harness/oracles/c11"
	_ "verif/harness/oracles/c12"
	_ "verif/harness/oracles/c13"
	_ "verif/harness/oracles/c14"
	_ "verif/harness/oracles/c15"
	_ "verif/harness/oracles/c16"
	_ "verif/harness/oracles/c17"
	_ "verif/harness/oracles/c18"
	_ "verif/harness/oracles/c19"
	_ "verif/harness/oracles/c20"
)
