// harness drives the real moov-io/ach implementation for the /verif checks.
//
//	harness corr   -stream S -seed N -n N -ops FILE -impl FILE -stats FILE
//	harness oracle -prop Cxx -seed N -tier quick|thorough|search -out FILE [-replay FILE]
package main

import (
	"encoding/json"
	"flag"
	"fmt"
	"os"

	"verif/harness/corr"
	"verif/harness/oracle"
)

func main() {
	if len(os.Args) < 2 {
		fmt.Fprintln(os.Stderr, "usage: harness corr|oracle ...")
		os.Exit(2)
	}
	switch os.Args[1] {
	case "corr":
		fs := flag.NewFlagSet("corr", flag.ExitOnError)
		stream := fs.String("stream", "", "stream name")
		seed := fs.Uint64("seed", 1, "seed")
		n := fs.Int("n", 1000, "number of cases")
		ops := fs.String("ops", "", "ops output file")
		impl := fs.String("impl", "", "implementation results output file")
		stats := fs.String("stats", "", "statistics output file (JSON)")
		fs.Parse(os.Args[2:])
		st, err := corr.RunStream(*stream, *seed, *n, *ops, *impl)
		if err != nil {
			fmt.Fprintln(os.Stderr, "harness:", err)
			os.Exit(2)
		}
		bs, _ := json.MarshalIndent(st, "", " ")
		if *stats != "" {
			os.WriteFile(*stats, bs, 0o644)
		}
	case "oracle":
		fs := flag.NewFlagSet("oracle", flag.ExitOnError)
		prop := fs.String("prop", "", "property id")
		seed := fs.Uint64("seed", 1, "seed")
		tier := fs.String("tier", "quick", "quick|thorough|search")
		out := fs.String("out", "", "result file (JSON)")
		replay := fs.String("replay", "", "replay file")
		fs.Parse(os.Args[2:])
		res := oracle.Run(*prop, *seed, *tier, *replay)
		bs, _ := json.MarshalIndent(res, "", " ")
		if *out != "" {
			os.WriteFile(*out, bs, 0o644)
		} else {
			os.Stdout.Write(bs)
		}
	default:
		fmt.Fprintln(os.Stderr, "unknown command", os.Args[1])
		os.Exit(2)
	}
}
