// corronly is the correspondence half of cmd/harness (no oracle packages), for development.
package main

import (
	"encoding/json"
	"flag"
	"fmt"
	"os"

	"verif/harness/corr"
)

func main() {
	fs := flag.NewFlagSet("corr", flag.ExitOnError)
	stream := fs.String("stream", "", "stream name")
	seed := fs.Uint64("seed", 1, "seed")
	n := fs.Int("n", 1000, "number of cases")
	ops := fs.String("ops", "", "ops output file")
	impl := fs.String("impl", "", "implementation results output file")
	stats := fs.String("stats", "", "statistics output file (JSON)")
	fs.Parse(os.Args[2:])
	st, err := corr.RunStream(*stream, *seed, *n, *ops, *impl)
	if err != nil {
		fmt.Fprintln(os.Stderr, "harness:", err)
		os.Exit(2)
	}
	bs, _ := json.MarshalIndent(st, "", " ")
	if *stats != "" {
		os.WriteFile(*stats, bs, 0o644)
	}
}
