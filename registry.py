"""Per-property configuration of ./check: theorem modules, correspondence
streams (name, quick count, thorough count) and notes for the evidence."""

PENDING_REASON = {}

PROPS = {
    "C13": {
        "streams": [],
        "level_text": "Proof: the per-entry code switch of File.Reversal is re-extracted from reversal.go on every run and the theorem reversal_code_map (direction flipped within the account type, standard result, flags describe the new direction, involution) is re-checked over it by kernel evaluation for all 28 codes of the domain; batch-level theorems (entries otherwise unchanged, totals swapped, description/date, service class = f(new directions), reversing twice restores codes) are proved for every batch over that domain. Validity of the re-tabulated file is searched by the oracle on the real code.",
        "level_note": "Trusted: Lean kernel; gofacts extraction of the switch (a wrong extraction would have to coincide with the model expectation; the oracle exercises the real switch); the batch model mirrors the loop body of File.Reversal by hand. File.Create/validation of the result is not part of the C13 theorems (oracle only).",
        "explanation": "Reversal's per-entry switch is re-extracted from reversal.go on every run and the code-map theorem is re-proved over it by kernel evaluation; batch-level theorems are structural.",
        "assumptions": ["File.Create/validation of the reversed file are covered by the oracle (and by C05's theorems), not by the C13 theorems"],
    },
}
