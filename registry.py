"""Per-property configuration of ./check: theorem modules, correspondence
streams (name, quick count, thorough count) and notes for the evidence."""

PENDING_REASON = {}

PROPS = {
    "C13": {
        "streams": [("reversal", 3000, 40000)],
        "level_text": "Proof: the per-entry code switch of File.Reversal is re-extracted from reversal.go on every run and the theorem reversal_code_map (direction flipped within the account type, standard result, flags describe the new direction, involution) is re-checked over it by kernel evaluation for all 28 codes of the domain; batch-level theorems (entries otherwise unchanged, totals swapped, description/date, service class = f(new directions), reversing twice restores codes) are proved for every batch over that domain. Validity of the re-tabulated file is searched by the oracle on the real code.",
        "level_note": "Trusted: Lean kernel; gofacts extraction of the switch (a wrong extraction would have to coincide with the model expectation; the oracle exercises the real switch); the batch model mirrors the loop body of File.Reversal by hand. File.Create/validation of the result is not part of the C13 theorems (oracle only).",
        "explanation": "Reversal's per-entry switch is re-extracted from reversal.go on every run and the code-map theorem is re-proved over it by kernel evaluation; batch-level theorems are structural.",
        "assumptions": ["File.Create/validation of the reversed file are covered by the oracle (and by C05's theorems), not by the C13 theorems"],
    },
    "C01": {
        "props_modules": ["Ach.Props.Layouts", "Ach.Props.Dispatch", "Ach.Props.C01"],
        "streams": [("field", 20000, 200000), ("record", 13000, 130000), ("reader", 2000, 40000)],
        "allow_nolayout": False,
        "level_text": "Proof (record and line level): for every record type the layout extracted from Parse/String on every run is shown to line up (26 per-record obligations, kernel evaluation); for every such layout, parsing the rendering of in-width field values returns them and re-rendering reproduces the text (generic theorems, all values, no bound); any 94-column line read by the Reader is a fixed point of write∘read for stable converter pairs; LF/CRLF/CR/blank-line/unbroken-stream layouts and trailing-blank trimming give the same records for all contents. File level: on the model of the Reader's record dispatcher (parseLine and everything it calls, as a state machine over abstract records) reading what the Writer emits - file header, standard/ADV batches, IAT batches, each entry followed by its addenda in slot order, controls, any number of filler records - rebuilds exactly the same tree with every record in the place it was written from, and the emission order is the Writer model's (Ach.Props.Dispatch). Record-level validators are inputs of that model; the oracle searches the real code.",
        "level_note": "Trusted: Lean kernel; gofacts layout extraction (tied behaviourally by the record correspondence stream: real Parse+String vs model on random and fixture lines, every record type); Go strings/strconv/time.Parse modelled (field stream). Custom XField methods are modelled on the stated domain (no IAT corrected data, non-empty creation date/time, ENR AUTOENROLL effective date) and pinned by body hash. The dispatcher model is tied by the reader correspondence stream (valid, mutated, truncated, concatenated files and arbitrary record sequences through the real Reader vs classify+read of the model: tree of line numbers and error classes in order) and by pins of every parse* function; outcomes of Validate() calls are inputs of the model (supplied from the real code in the stream).",
        "assumptions": ["strings are valid UTF-8 (List Char); invalid UTF-8 reaches only C06's fuzzing"],
    },
    "C02": {
        "props_modules": ["Ach.Props.Layouts", "Ach.Props.Dispatch", "Ach.Props.C02"],
        "streams": [("record", 13000, 130000), ("write", 2000, 30000), ("reader", 2000, 40000), ("io", 3000, 40000)],
        "level_text": "Proof: (record level) every layout the compiler accepts is exactly 94 columns wide (theorem over all extracted facts), and every record whose field values are within their widths - or that was parsed by the Reader from a 94-column line with stable converter pairs - renders to exactly 94 characters; (file level, on the Writer model of the emission order and padding loop over the file's tree shape) the record count is a multiple of ten, nothing but fewer than ten all-9 records follows the file control, the output is in the grammar FH (BH (ED AD*)* BC)* FC 9* and parses back to the tree, and File.Create's block count / record total equal what is physically written; on the byte-level Writer model (C16) what a successful Write leaves in the sink is exactly every non-empty record followed by the configured line ending, then the filler records each followed by it.",
        "level_note": "Trusted: as C01; the Writer model is tied by the write correspondence stream (kinds of the records the real Writer emits vs the model, generated files of every SEC/IAT/ADV, all residues mod 10). The byte-level Writer model is tied by the io stream. The per-batch counts in controls are checked by the oracle on the bytes.",
    },
    "C03": {
        "streams": [("validate", 3000, 40000), ("iatvalidate", 3000, 40000)],
        "level_text": "Proof: check-digit specification (unique digit making the 3-7-1 sum a multiple of 10, all sums), hash = sum mod 10^10, classification tables (five copies of the credit/debit lists agree, partition the standard codes, agree with CreditOrDebit - regenerated tables, kernel evaluation), and soundness of acceptance: a batch/file accepted by the model of Batch.verify / File.ValidateWith satisfies every clause of the property. The model may over-accept (opaque conjuncts only reject more). IAT batches: the same soundness theorem on the model of IATBatch.verify / IATEntryDetail.Validate (the Reader validates every IAT batch at its control record; the IAT totals use the IAT copy of the code lists, proved equal to the standard one). File.ValidateWith itself never validates the IAT/ADV batches of an in-memory file (known finding D6); ADV batches: oracle only.",
        "level_note": "Trusted: the hand-written validation model mirrors batch.go/file.go (call sequence facts + oracle); direction needed is implementation-accepts => model-accepts, searched by the oracle's independent recomputation on the real code and by the validate / iatvalidate streams (real File.ValidateWith and IATBatch.Validate on generated and perturbed inputs x option sets vs the model, one direction).",
    },
    "C05": {
        "streams": [("create", 4000, 60000), ("filecreate", 3000, 40000)],
        "level_text": "Proof (batch level): for the model of Batch.build/upsertOffsets - the removal loop exactly as written, parameterised by the slice expression extracted from the source - the control equals the values recomputed from the entries, an Offset makes debits equal credits through at most one OFFSET entry per direction, and any number of further builds changes nothing (entries, trace and addenda sequence numbers, control). The historical Entries[i+i:] loop is shown to panic / hang on the model. File level: on the model of File.Create's numbering loop (standard then IAT batches, one running counter) and file control, the created file passes File.ValidateWith whenever its header and batches validate and the numbering it leaves is ascending - which it always is for batches numbered <= 1 -, the file control equals the figures recomputed from the batch controls for every input, and Create again changes nothing. createFileADV and the SEC-specific Create wrappers: oracle only.",
        "level_note": "Trusted: Lean kernel; the create correspondence stream ties the model to the real (*Batch).build through the verif hook (entries, traces, addenda sequences, control compared after 1-3 builds, with and without offsets); gofacts index-site census gives the slice expression; the filecreate stream runs the real File.Create on files whose batch numbers and control figures were set to arbitrary values (standard, IAT, mixed) and compares numbers and the six file-control figures with the model.",
    },
    "C20": {
        "streams": [("mask", 12000, 120000)],
        "level_text": "Proof: maskNumber/maskName modelled on bytes exactly as written; for every string: first two positions masked, output bytes are '*', blank or the input byte, at most four bytes in clear, a value with >= 5 non-blank bytes after position 2 always has one hidden; words of >= 4 runes show only their first two bytes. Facts regenerated from describe/file.go and achcli: protected accessors reach Fprintf only through masked variables under the right flags; -mask wires all three. The complement region (<= 4 characters after >= 2 blanks) is the known finding D20, proved as a counterexample on the model.",
        "level_note": "Trusted: Lean kernel; the mask correspondence stream (exhaustive strings up to length 5-6 over a 5-symbol alphabet incl. a 2-byte rune, plus random to field width) ties the model to the real functions through the verif hook; tabwriter/fmt not modelled.",
    },
    "C04": {
        "props_modules": ["Ach.Props.Layouts", "Ach.Props.Dispatch", "Ach.Props.C04"],
        "streams": [("record", 13000, 130000), ("validate", 3000, 40000), ("reader", 2000, 40000)],
        "level_text": "Proof: single-digit tampering of every protected field class is detected on the validation model - routing digits and check digit by the algebra of the 3-7-1 weights (units mod 10; all 8 positions, all replacements), fixed-width decimal fields by injectivity of digit strings, amounts through the batch total, control/header/file-control fields through the equalities validation tests; for every accepted batch/file. Truncation, on the model of the Reader's record dispatcher and end-of-input checks: a text cut anywhere before the file control record (at a record boundary or inside a record) holds no file control record and is rejected; cut inside the file control record it reads as the same tree with the cut control, which validation refuses unless every integrity field still has its value (a cut at or before the entry/addenda count always changes that count); cut inside the blocking filler it is the same file or is refused. The oracle also enumerates every truncation offset and every protected digit x 9 replacements per sampled file on the real Reader.",
        "level_note": "Trusted: validation model of C03 (mirrors Batch.verify/File.ValidateWith), layout facts (which columns are which field); dispatcher model tied by the reader correspondence stream and parse* body pins; Validate() outcomes are inputs of the dispatcher model. The step from a cut inside a record to the abstract record (first column survives; fields after the cut are blank) is by the layout facts, not a theorem over bytes.",
    },
    "C06": {
        "props_modules": ["Ach.Props.C06"],
        "streams": [("create", 3000, 30000)],
        "level_text": "Partial proof: the index/slice-expression census of the functions reachable from the entry points is pinned to the regenerated source; for every input stream the Reader's loop flushes lines of 1..94 runes (long-line branches unreachable, padding total); padded sub-field accessors slice within bounds for every value; the offset-removal loop neither panics nor spins for every entry list. Nil dereferences on partially built files, third-party code, scheduling: not exhibited by a model - structure-aware fuzzing of text, JSON leaves, call sequences and all HTTP routes by the oracle.",
        "level_note": "Trusted: model totality stands for termination only of the modelled loops; everything else is the oracle's search.",
    },
    "C07": {
        "streams": [("json", 2600, 26000)],
        "level_text": "Proof (schema level): encoding/json's field rules restated; for every schema and every struct value satisfying fieldOK, decode(encode v) = v. Facts regenerated from the struct tags and layouts: every field that String()/Parse touch is exported (exceptions pinned: FileHeader's four constants; Addenda98.iatCorrectedData = known finding), every omitempty field has a zero constructor default (exceptions pinned) - the obligation that failed for D7 before its fix. Decode-path functions pinned by hash; the json stream runs encoding/json on the 26 real record structs (constructor value, exported string/int/bool fields set to zero / non-zero / left as constructed; Marshal, Unmarshal into a fresh constructor value) and compares, field by field, whether the value came back with the model's fieldOK over the regenerated struct tags and constructor defaults. Re-tabulation on decode = C05; text equality end to end: oracle.",
        "level_note": "Trusted: encoding/json rules as restated; setBatchesFromJSON's CTX/ATX re-inference is not modelled (oracle found a defect there, known finding).",
    },
    "C08": {
        "streams": [("merge", 2000, 30000)],
        "level_text": "Proof: on the model of outFile.add/pickOutFile/findOutBatch/ordered-map Set and convertToFiles, for every list of files (any order, repeats, colliding traces) the multiset of (route, header key, entry) triples is conserved, any permutation of the inputs gives the same multiset, out-files have pairwise distinct routes and hold only their route's entries, and convertToFiles writes each route's entries in order, each into exactly one output batch, for every limit.",
        "level_note": "Trusted: abstraction of entries/headers to keys (BatchHeader.Equal's fields; route = origin,destination); merge functions pinned by body hash; the merge correspondence stream runs the real MergeFilesWith and the model (addFiles, convert) on the same abstracted inputs (1-5 files, shared and distinct routes, equal headers, colliding traces, ADV/IAT batches, binding and non-binding MaxLines/MaxDollarAmount incl. 0, negative and above the Nacha limit) and compares which entry lands in which batch of which output file; behaviour also searched by the oracle on the real MergeFiles (multiset comparison, all permutations of <= 4 files).",
    },
    "C09": {
        "streams": [("merge", 2000, 30000)],
        "level_text": "Proof: loop invariant of convertToFiles relating the running line counter to the real size of the file being assembled gives: every written file has at most MaxLines records unless it holds a single entry, for every state and every MaxLines (0 or >= 2); accumulated batches stay strictly sorted by trace with unique traces; outputs are consecutive runs of those. The same loop with its exact dollar counter: the amounts of every written file sum to at most MaxDollarAmount (when positive) unless it holds a single entry. When a route's accumulated batches fit under both limits (lines as the code counts them) and no amount is negative, at most one file is written for the route; two accumulated batches with equal headers exist only because of trace collisions (every entry of the later one has a trace the earlier one already holds). Validity of outputs = C05 on each batch, checked on the real outputs by the oracle (limits swept at size-1/size/size+1 and every boundary).",
        "level_note": "Trusted: as C08 (same model, same merge correspondence stream).",
    },
    "C10": {
        "race": True,
        "streams": [("pipeline", 600, 6000)],
        "level_text": "Proof: the directory walk as a function of the tree (complete for the behaviour extracted from walkDir today; the old return-after-first-subdirectory behaviour has a counterexample), and the MergeDir goroutine pipeline as a labelled transition system with parameters read from the source (are the two sends inside a select with Done, errgroup.WithContext): invariant, delivery (merger multiset = accepted parseable files), progress/no deadlock for today's parameters, termination measure, error iff an accepted file is unparseable, schedule independence given order-independent merging (C08); the old parameters have a reachable deadlock. Data races and the Go memory model are not exhibited (oracle under delays; -race build).",
        "level_note": "Trusted: channel/context/errgroup/WaitGroup contracts as modelled; gofacts Pipeline facts; the walk is tied by the pipeline correspondence stream (real MergeDir over fstest.MapFS with a recording acceptor vs the model).",
    },
    "C11": {
        "streams": [("segment", 3000, 40000), ("segmentiat", 3000, 40000)],
        "level_text": "Proof (standard batches): segment's credit and debit outputs together are a permutation of the input's entries, each side holds only its direction, using the regenerated case lists of segmentFileBatchAddEntry (disjoint, covering the standard codes); the numbering rule of File.Create and the exact condition under which the outputs' batch numbers validate, with the D8 counterexample proved on the model. IAT batches: the case lists of segmentFileIATBatches are proved equal to the standard ones, so the same model and theorems cover them (segmentiat stream). ADV, Create/Validate of outputs, identification fields: oracle.",
        "level_note": "Trusted: model of segmentFileBatches/File.Create numbering; lists from gofacts.",
    },
    "C12": {
        "streams": [("flatten", 3000, 40000)],
        "level_text": "Proof: on the model of Flatten's merge loop, for every processing order (unstable sort): entries conserved (permutation), two groups with equal header signatures always share a trace number, flattening the result again (any order) changes nothing, and every output batch holds its entries in ascending trace order (strictly, trace numbers inside a group being distinct). Flatten functions pinned by body hash.",
        "level_note": "Trusted: header signature abstracted to a key (the real one is the first 87 BYTES of the rendered header: the oracle found that a multi-byte character shifts the cut - known finding); Copy()'s pointer sharing, Create of merged batches (C05) not modelled.",
    },
    "C14": {
        "streams": [("readonly", 3000, 40000)],
        "level_text": "Partial proof: the regenerated census of assignments/mutator calls through the receiver in the read-only API is exactly the three known mutators (File.IsADV, FileHeader routing field methods, EntryDetail.PaymentTypeField); each is proved to be the identity on canonical values (what the Reader and the constructors produce); counterexample for an API-built header with a leading blank (known finding D16). Purity of the rest is syntactic (census), aliasing and the clock (D10) are not exhibited; the readonly stream runs the three real mutators on arbitrary stored values (every Unicode blank, absent headers/controls, ADV) against their modelled effects; the oracle snapshots JSON+text around sequences of the read-only calls.",
        "level_note": "Trusted: census is one call level deep and syntactic.",
    },
    "C15": {
        "props_modules": ["Ach.Props.Dispatch", "Ach.Props.C15"],
        "streams": [("validate", 3000, 40000), ("reader", 2000, 40000), ("iatvalidate", 3000, 40000)],
        "level_text": "Proof: on the validation model with its option guards exactly as written, acceptance is monotone in the option set for every input and every pair O <= O' (batch and file level); regenerated census of every reference to the 15 relaxation flags in package ach: in acceptance code each is 'if !flag {may reject}' or 'if flag {return nil}' - an inverted or new tightening guard breaks the obligation. On the model of the Reader's record dispatcher, a record sequence Read accepts stays accepted when more of the record- and batch-level validations succeed and when a missing file header/control becomes allowed, so monotonicity of the validators lifts to Read. Independence of field extraction from the flags, and real texts: oracle over chains and all 2^15 sets on a corpus.",
        "level_note": "Trusted: record-level checks are opaque option-independent conjuncts in the model; their monotonicity is what the guard census stands for.",
    },
    "C16": {
        "streams": [("io", 3000, 40000)],
        "level_text": "Proof: bufio.Writer/Scanner and charset.NewReader contracts modelled; for every file, line ending, buffer size, failure offset k and failure mode Write returns an error, and when it returns nil the sink holds exactly the rendering (also for failures that surface only at the final Flush - 'Write ends in return w.w.Flush()' and 'no dropped error' are regenerated facts); Reader: a non-EOF failure at any offset is reported, except io.ErrUnexpectedEOF inside the first 1024 bytes, which charset.NewReader treats as end of input - proved as a counterexample on the model and reproduced on the real Reader (known finding).",
        "level_note": "Trusted: the stated library contracts (bufio, io.ReadFull, MultiReader, x/net charset v0.39.0); tied by the io correspondence stream (real Writer/Reader over fault injectors vs model, every mode).",
    },
    "C17": {
        "streams": [("server", 8000, 100000)],
        "level_text": "Proof: the HTTP handlers modelled as a state machine over a map id -> file with library calls as uninterpreted functions; refinement to the abstract map for every request sequence; the property's clauses as corollaries (GET returns the stored file, contents = writer output, validate/build/flatten/segment/batch endpoints = the library call, DELETE then not found, duplicate create refused and harmless, key isolation); 67 server functions pinned by body hash. Deviations of the real server from a faithful store are stated as theorems about the model (rejected create is still stored; read-like requests write back; contents failures answer 200) and checked by the oracle.",
        "level_note": "Trusted: HTTP parsing, mux, go-kit plumbing, JSON encoding not modelled; files have value semantics in the model (aliasing between stored files is outside it).",
    },
    "C18": {
        "race": True,
        "streams": [("repo", 4000, 60000)],
        "level_text": "Proof: repository methods as micro-steps under an RW lock, any number of clients, every interleaving: lock invariant, no two conflicting shared accesses enabled (under the lock discipline read from the source: which methods take Lock/RLock, deferred unlock, nothing before the lock), forward simulation to the atomic map, linearizability of complete runs with real-time order; the four sequential clauses on the spec; counterexample when StoreFile takes only the read lock. Go memory model / RWMutex internals not exhibited (porcupine + -race in the oracle).",
        "level_note": "Trusted: sync.RWMutex contract, sequentially consistent memory; sequential semantics tied by the repo correspondence stream (real repository vs spec on random call sequences).",
    },
    "C19": {
        "race": True,
        "streams": [],
        "level_text": "Partial proof: the sync.Pool buffer discipline as an LTS over N goroutines (get, write*, String copy, reset, put; nested gets): ownership invariant and noninterference - every goroutine's outputs equal its sequential outputs for every interleaving; the discipline (every getBuffer paired with defer saveBuffer, no escape) is a regenerated fact over all 49 users; counterexample when a buffer is put back while still referenced; operations on distinct repository keys commute. Data races as such, shared dictionaries, Prometheus: not exhibited (oracle: sequential vs concurrent byte-for-byte, -race).",
        "level_note": "Trusted: sync.Pool and bytes.Buffer contracts; translation of the users into op programs.",
    },
}
