"""Per-property configuration of ./check: theorem modules, correspondence
streams (name, quick count, thorough count) and notes for the evidence."""

PENDING_REASON = {}

PROPS = {
    "C13": {
        "streams": [],
        "level_text": "Proof: the per-entry code switch of File.Reversal is re-extracted from reversal.go on every run and the theorem reversal_code_map (direction flipped within the account type, standard result, flags describe the new direction, involution) is re-checked over it by kernel evaluation for all 28 codes of the domain; batch-level theorems (entries otherwise unchanged, totals swapped, description/date, service class = f(new directions), reversing twice restores codes) are proved for every batch over that domain. Validity of the re-tabulated file is searched by the oracle on the real code.",
        "level_note": "Trusted: Lean kernel; gofacts extraction of the switch (a wrong extraction would have to coincide with the model expectation; the oracle exercises the real switch); the batch model mirrors the loop body of File.Reversal by hand. File.Create/validation of the result is not part of the C13 theorems (oracle only).",
        "explanation": "Reversal's per-entry switch is re-extracted from reversal.go on every run and the code-map theorem is re-proved over it by kernel evaluation; batch-level theorems are structural.",
        "assumptions": ["File.Create/validation of the reversed file are covered by the oracle (and by C05's theorems), not by the C13 theorems"],
    },
    "C01": {
        "props_modules": ["Ach.Props.Layouts", "Ach.Props.C01"],
        "streams": [("field", 20000, 200000), ("record", 13000, 130000)],
        "allow_nolayout": False,
        "level_text": "Proof (record and line level): for every record type the layout extracted from Parse/String on every run is shown to line up (26 per-record obligations, kernel evaluation); for every such layout, parsing the rendering of in-width field values returns them and re-rendering reproduces the text (generic theorems, all values, no bound); any 94-column line read by the Reader is a fixed point of write∘read for stable converter pairs; LF/CRLF/CR/blank-line/unbroken-stream layouts and trailing-blank trimming give the same records for all contents. The file-level composition (record-order grammar, validators) is covered by the oracle search on the real code.",
        "level_note": "Trusted: Lean kernel; gofacts layout extraction (tied behaviourally by the record correspondence stream: real Parse+String vs model on random and fixture lines, every record type); Go strings/strconv/time.Parse modelled (field stream). Custom XField methods are modelled on the stated domain (no IAT corrected data, non-empty creation date/time, ENR AUTOENROLL effective date) and pinned by body hash. File-level grammar and validators: oracle only.",
        "assumptions": ["strings are valid UTF-8 (List Char); invalid UTF-8 reaches only C06's fuzzing"],
    },
    "C02": {
        "props_modules": ["Ach.Props.Layouts", "Ach.Props.C02"],
        "streams": [("record", 13000, 130000)],
        "level_text": "Proof (record level): every layout the compiler accepts is exactly 94 columns wide (theorem over all extracted facts), and every record whose field values are within their widths - or that was parsed by the Reader from a 94-column line with stable converter pairs - renders to exactly 94 characters. Blocking, record order and control counts of whole files are searched by the oracle on the real writer.",
        "level_note": "Trusted: as C01. File-level clauses (multiple of ten, filler, record order, counts) are oracle-only in this revision.",
    },
    "C03": {
        "streams": [],
        "level_text": "Proof: check-digit specification (unique digit making the 3-7-1 sum a multiple of 10, all sums), hash = sum mod 10^10, classification tables (five copies of the credit/debit lists agree, partition the standard codes, agree with CreditOrDebit - regenerated tables, kernel evaluation), and soundness of acceptance: a batch/file accepted by the model of Batch.verify / File.ValidateWith satisfies every clause of the property. The model may over-accept (opaque conjuncts only reject more). Partial for IAT/ADV batches of in-memory files (known finding D6).",
        "level_note": "Trusted: the hand-written validation model mirrors batch.go/file.go (call sequence facts + oracle); direction needed is implementation-accepts => model-accepts, searched by the oracle's independent recomputation on the real code.",
    },
    "C05": {
        "streams": [("create", 4000, 60000)],
        "level_text": "Proof (batch level): for the model of Batch.build/upsertOffsets - the removal loop exactly as written, parameterised by the slice expression extracted from the source - the control equals the values recomputed from the entries, an Offset makes debits equal credits through at most one OFFSET entry per direction, and any number of further builds changes nothing (entries, trace and addenda sequence numbers, control). The historical Entries[i+i:] loop is shown to panic / hang on the model. File.Create and SEC wrappers: oracle only.",
        "level_note": "Trusted: Lean kernel; the create correspondence stream ties the model to the real (*Batch).build through the verif hook (entries, traces, addenda sequences, control compared after 1-3 builds, with and without offsets); gofacts index-site census gives the slice expression.",
    },
    "C20": {
        "streams": [("mask", 12000, 120000)],
        "level_text": "Proof: maskNumber/maskName modelled on bytes exactly as written; for every string: first two positions masked, output bytes are '*', blank or the input byte, at most four bytes in clear, a value with >= 5 non-blank bytes after position 2 always has one hidden; words of >= 4 runes show only their first two bytes. Facts regenerated from describe/file.go and achcli: protected accessors reach Fprintf only through masked variables under the right flags; -mask wires all three. The complement region (<= 4 characters after >= 2 blanks) is the known finding D20, proved as a counterexample on the model.",
        "level_note": "Trusted: Lean kernel; the mask correspondence stream (exhaustive strings up to length 5-6 over a 5-symbol alphabet incl. a 2-byte rune, plus random to field width) ties the model to the real functions through the verif hook; tabwriter/fmt not modelled.",
    },
}
