#!/usr/bin/env python3
"""Regenerates MANIFEST.json from registry.py (run after editing the registry)."""
import json, sys, os
sys.path.insert(0, os.path.dirname(os.path.abspath(__file__)))
from registry import PROPS, PENDING_REASON
props = [json.loads(l) for l in open('/verif/properties.jsonl')]
checks = []
na = []
for p in props:
    pid = p["id"]
    c = PROPS.get(pid)
    if not c:
        na.append({"property_id": pid, "reason": PENDING_REASON.get(pid, "check not yet built in this revision; see DESIGN.md section 12 (order of work)")})
        continue
    checks.append({
        "property_id": pid,
        "quick_cmd": f"./check {pid} --tier quick",
        "thorough_cmd": f"./check {pid} --tier thorough",
        "evidence_file": f"/verif/evidence/{pid}.json",
        "replay_cmd_template": f"./check {pid} --replay {{path}}",
        "engine": "lean4-proof+correspondence",
        "level_claimed": {"category": c.get("level", "proof"), "text": c["level_text"], "design_ref": c.get("design_ref", "DESIGN.md section 7 / " + pid)},
        "level_note": c["level_note"],
        "technique": c.get("technique", "Lean 4 theorems over a model tied to the source by regenerated facts (gofacts) and differential correspondence; Go oracle as failing-input search"),
    })
m = {
    "version": 1,
    "setup_cmd": "./setup.sh",
    "hooks": {"guard": "verif", "enable": "go build -tags verif (harness module /verif/harness, replace github.com/moov-io/ach => /repo)",
              "baseline_off_cmd": "cd /repo && go test -mod=mod -json -vet=off -count=1 -timeout 25m ./...",
              "source_commits": ["614cb58f"], "add_only": True},
    "engines": [
        {"name": "lean4-proof+correspondence", "path": "/verif/check", "serves_properties": [c["property_id"] for c in checks],
         "kind_free_text": "Lean 4.33 theorems (lake build, #print axioms audit, leanchecker) over an executable model; model tied to /repo by gofacts (go/ast fact translator, regenerated every run) and by a differential correspondence harness (Go, -tags verif) against the compiled model driver; Go oracles search for failing inputs"},
    ],
    "checks": checks,
    "notes": "Findings file: /verif/KNOWN_FINDINGS.jsonl.  DESIGN.md explains the F/T/K/O obligation kinds and the trusted base.",
    "not_applicable": na,
}
json.dump(m, open('/verif/MANIFEST.json', 'w'), indent=1)
print(f"MANIFEST: {len(checks)} checks, {len(na)} not claimed")
